import Decstr.Props.C01
/-!
# C09 — infinities and NaNs (sign, signaling, payload) encode canonically

The encoder side of C09: what `decimal_from_parsed` produces for the two special kinds, for every type and width.
(That formatting and reparsing reproduces sign, kind and payload is C02 + C06; see `Decstr/Props/C03.lean`.)
-/
namespace Decstr.Props.C09
open Decstr.Model Decstr.Spec Decstr.Proofs

/-- the width the special values get when no payload asks for more: the type's own, or 32 bits -/
def baseN (T : Ty) : Nat := (T.fixedN).getD 1

theorem alloc4 (T : Ty) : T.withAtLeastBytes 4 = .ok (Buf.zero (4 * baseN T)) := by
  cases T <;> rfl

theorem baseN_pos (T : Ty) : 0 < baseN T := by cases T <;> decide

/-- **C09 (infinity).** Sign bit, combination `11110`, every other bit zero, at the type's width (32 bits for the
    dynamic types). -/
theorem C09_inf (T : Ty) (neg : Bool) :
    fromParsed T (.infinity neg) = .ok ⟨4 * baseN T, encodeInf ⟨baseN T⟩ neg⟩ := by
  simp only [fromParsed, alloc4, encodeInfinity_spec _ (baseN_pos T)]

/-- **C09 (NaN without payload; an empty payload `nan()` is the same).** -/
theorem C09_nan_none (T : Ty) (tb : TextBuf) (sig neg : Bool) (payload : Option PSignificand)
    (h : payload.filter (fun s => decide (s.range.stop > s.range.start)) = none) :
    fromParsed T (.nan ⟨tb, sig, neg, payload⟩) = .ok ⟨4 * baseN T, Spec.encodeNan ⟨baseN T⟩ neg sig 0⟩ := by
  simp only [fromParsed, h, alloc4, encodeNan_nopayload _ (baseN_pos T)]

/-- **C09 (NaN with payload).** The payload digits as written (leading zeros insignificant for the value) are stored
    as an integer in the trailing significand; a payload of up to `p − 1` digits fits the type's (largest) width, a longer
    one is rejected by the bounded types with a truthful width and widens the dynamic ones. -/
theorem C09_nan_payload (T : Ty) (tb : TextBuf) (sig neg : Bool) (s : PSignificand)
    (hr : s.range.stop > s.range.start) (hds : AsciiDigits (slice tb.ascii s.range)) (hne : slice tb.ascii s.range ≠ []) :
    match fromParsed T (.nan ⟨tb, sig, neg, some s⟩) with
    | .ok b => ∃ n, 0 < n ∧ b = ⟨4 * n, Spec.encodeNan ⟨n⟩ neg sig (valOf (slice tb.ascii s.range))⟩ ∧
        (slice tb.ascii s.range).length + 1 ≤ (Fmt.mk n).p ∧
        (match T.fixedN with
         | some w => n = w
         | none => need ((slice tb.ascii s.range).length + 1) none ≤ n ∧ n ≤ need ((slice tb.ascii s.range).length + 1) none + 1 ∧
                   (need ((slice tb.ascii s.range).length + 1) none ≤ 5 → n = need ((slice tb.ascii s.range).length + 1) none))
    | .error err => ∃ cap n, T.capN = some cap ∧ cap < need ((slice tb.ascii s.range).length + 1) none ∧
        err = .wouldOverflow (4 * cap) (4 * n) ∧ cap < n ∧ (Fmt.mk n).fitsB ((slice tb.ascii s.range).length + 1) none = true := by
  have hf : (some s).filter (fun s => decide (s.range.stop > s.range.start)) = some s := by
    simp [Option.filter, hr]
  have halloc := C07.C07_alloc T ((slice tb.ascii s.range).length + 1) (by omega) none
  simp only [fromParsed, hf]
  cases hw : T.withPrecision ((slice tb.ascii s.range).length + 1) none with
  | error err =>
    rw [hw] at halloc
    exact halloc
  | ok b0 =>
    rw [hw] at halloc
    obtain ⟨n, hb0, hn, hfit, _, hwid⟩ := halloc
    subst hb0
    have hp : (slice tb.ascii s.range).length + 1 ≤ (Fmt.mk n).p := by
      simpa [Fmt.fitsB] using hfit
    refine ⟨n, hn, ?_, hp, hwid⟩
    exact encodeNan_spec n hn neg sig _ hds hne (by simpa [Fmt.p] using hp)

/-- non-vacuity / the canonical patterns of the README table: `-inf`, `snan`, at 32 bits -/
example : (fromParsed .b32 (.infinity true)).toOption.map Buf.toBytes = some [0, 0, 0, 0xF8] := by decide +kernel

end Decstr.Props.C09
