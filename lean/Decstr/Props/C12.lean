import Decstr.Props.C06
import Decstr.Props.C13
import Decstr.Proofs.Grammar
import Decstr.Proofs.SpecLemmas
/-!
# C12 — binary float → decimal: the formatter's shortest digits, exactly; converts back to the identical float

`fromFloat T B bits ryu` is the model of `T::from_f32/from_f64` / `From` / `TryFrom` (`decimal_from_binary_float`):
NaN and infinity are mapped directly, a finite float is printed by `ryu::Buffer::format_finite` (an external crate:
its text is the explicit argument `ryu` and its behaviour the explicit hypothesis `RyuContract`), parsed by
`FiniteParser::parse_str` and encoded by `decimal_from_parsed`; an error is `None` for the fallible conversions and a
panic (`expect`) for the ones offered as infallible.
-/
namespace Decstr.Props.C12
open Decstr.Model Decstr.Spec Decstr.Proofs

/-- the assumed contract of the float formatter for a finite float with bit pattern `bits`: the text is a finite numeral
    `-?D(.D)?(e-?D)?` with the float's sign, at most 17 written digits, a small exponent, and it rounds (to nearest even)
    to the float -/
structure RyuContract (B : BinFmt) (bits : Nat) (ryu : List Nat) (s : Bool) (i fr : List Nat)
    (ex : Option (Bool × List Nat)) : Prop where
  parses : Spec.parse ryu = some (.finite s i fr ex)
  starts : startsWithDigitOrMinusDigit ryu = true
  sign : s = decide (bits ≥ B.signMask)
  digits : i.length + fr.length ≤ 17
  expo : -400 ≤ expValue ex ∧ expValue ex ≤ 400
  rounds : rneDecSafe B (ofDigits (i ++ fr)) (expValue ex - fr.length) = some (bits % B.signMask)

/-- A weaker contract, which is all the proofs use.  `ryu` prints small values positionally (`1.2345678901234568e-5` is
    printed `0.000012345678901234568`: 22 *written* digits for 17 significant ones), so "at most 17 written digits" does
    not hold of every real output; "at most 34 written digits, value below `10^17`" does. -/
structure RyuContractWide (B : BinFmt) (bits : Nat) (ryu : List Nat) (s : Bool) (i fr : List Nat)
    (ex : Option (Bool × List Nat)) : Prop where
  parses : Spec.parse ryu = some (.finite s i fr ex)
  starts : startsWithDigitOrMinusDigit ryu = true
  sign : s = decide (bits ≥ B.signMask)
  written : i.length + fr.length ≤ 34
  significant : ofDigits (i ++ fr) < 10 ^ 17
  expo : -400 ≤ expValue ex ∧ expValue ex ≤ 400
  rounds : rneDecSafe B (ofDigits (i ++ fr)) (expValue ex - fr.length) = some (bits % B.signMask)

/-! ## auxiliary facts -/

/-- the digits of a parsed finite numeral are digits -/
theorem parse_finite_digits {txt : List Nat} {s : Bool} {i fr : List Nat} {ex : Option (Bool × List Nat)}
    (h : Spec.parse txt = some (.finite s i fr ex)) : (∀ d ∈ i, d ≤ 9) ∧ (∀ d ∈ fr, d ≤ 9) := by
  have key : ∀ l : List Nat, (∀ c ∈ l, isDigit c = true) → ∀ d ∈ l.map (· - 48), d ≤ 9 := by
    intro l hl d hd
    obtain ⟨c, hc, rfl⟩ := List.mem_map.1 hd
    have := hl c hc
    simp [isDigit] at this
    omega
  have hm := Grammar.parse_sound h
  cases hm with
  | finite sg i' fr' ex' s' f e hs hi hf he =>
    refine ⟨key _ hi.2, ?_⟩
    cases hf with
    | none => intro d hd; cases hd
    | some f0 hf0 => exact key _ hf0.2

theorem RyuContract.wide {B : BinFmt} {bits : Nat} {ryu : List Nat} {s : Bool} {i fr : List Nat}
    {ex : Option (Bool × List Nat)} (h : RyuContract B bits ryu s i fr ex) : RyuContractWide B bits ryu s i fr ex := by
  refine ⟨h.parses, h.starts, h.sign, by have := h.digits; omega, ?_, h.expo, h.rounds⟩
  obtain ⟨h1, h2⟩ := parse_finite_digits h.parses
  have hlt := ofDigits_lt (i ++ fr) (by
    intro d hd
    rcases List.mem_append.1 hd with hd | hd
    · exact h1 d hd
    · exact h2 d hd)
  have hle : 10 ^ (i ++ fr).length ≤ 10 ^ 17 :=
    Nat.pow_le_pow_right (by decide) (by rw [List.length_append]; exact h.digits)
  omega

/-- a float whose magnitude bits are a rounding result is finite -/
theorem finite_of_rounds (B : BinFmt) (hB : B = binary32 ∨ B = binary64) (bits c : Nat) (q : Int)
    (h : rneDecSafe B c q = some (bits % B.signMask)) : B.isNan bits = false ∧ B.isInf bits = false := by
  have := rneDecSafe_lt B hB c q _ h
  simp only [BinFmt.isNan, BinFmt.isInf, decide_eq_false_iff_not, beq_eq_false_iff_ne]
  omega

/-- the significant digits of an ASCII digit string whose value is below `10^k` number at most `k` -/
theorem sig_length_le {ds : List Nat} (hds : AsciiDigits ds) (k : Nat) (h : valOf ds < 10 ^ k) :
    (ds.dropWhile (· == 48)).length ≤ k := by
  induction ds with
  | nil => simp
  | cons d t ih =>
    obtain ⟨hd, ht⟩ := asciiDigits_cons.1 hds
    by_cases h48 : d = 48
    · subst h48
      rw [valOf_zero_cons] at h
      rw [List.dropWhile_cons_of_pos (by simp)]
      exact ih ht h
    · have e : (d :: t).dropWhile (· == 48) = d :: t := List.dropWhile_cons_of_neg (by simpa using h48)
      rw [e, List.length_cons]
      rw [valOf_cons] at h
      have h1 : 10 ^ t.length ≤ (d - 48) * 10 ^ t.length := Nat.le_mul_of_pos_left _ (by omega)
      have h2 : 10 ^ t.length < 10 ^ k := by omega
      exact (Nat.pow_lt_pow_iff_right (by decide)).1 h2

/-! ## 1. the finite arm is the string entry point -/

theorem fromFloat_finite (T : Ty) (B : BinFmt) (bits : Nat) (ryu : List Nat)
    (hn : B.isNan bits = false) (hi : B.isInf bits = false) :
    fromFloat T B bits ryu = fromText T (T.floatInfallible B) ryu := by
  unfold fromFloat
  simp only [hn, hi, Bool.false_eq_true, if_false]

/-- `fromText` (the common tail of `from_<int>` and `from_<float>`) in terms of the string entry point -/
theorem fromText_eq (T : Ty) (inf : Bool) (txt : List Nat) (hs : startsWithDigitOrMinusDigit txt = true) :
    fromText T inf txt = match tryParseStr T txt with
      | .ok b => .ok b
      | .error (.parse _) => .panic
      | .error (.overflow _) => if inf then .panic else .none := by
  unfold fromText tryParseStr
  rw [parseFiniteStr_eq_parseStr _ hs]
  cases parseStr txt with
  | error e => rfl
  | ok p => cases h : fromParsed T p <;> simp [liftOverflow, h]

/-- **C12 (entry point).** For a finite float, `from_f32/from_f64` is the string entry point's answer on the formatter's
    text (needs only that the text starts with a digit or `-` and a digit). -/
theorem fromFloat_eq (T : Ty) (B : BinFmt) (bits : Nat) (ryu : List Nat)
    (hn : B.isNan bits = false) (hi : B.isInf bits = false) (hs : startsWithDigitOrMinusDigit ryu = true) :
    fromFloat T B bits ryu = match tryParseStr T ryu with
      | .ok b => .ok b
      | .error (.parse _) => .panic
      | .error (.overflow _) => if T.floatInfallible B then .panic else .none := by
  rw [fromFloat_finite T B bits ryu hn hi, fromText_eq T _ ryu hs]

/-! ## 2. the finite arm is exact -/

/-- the shape of the answer to a finite float (the statement of `C12_finite`) -/
def FloatOutcome (T : Ty) (B : BinFmt) (s : Bool) (c d : Nat) (q : Int) (r : Res) : Prop :=
  match r with
  | .ok b => ∃ n, 0 < n ∧ b = ⟨4 * n, encodeFin ⟨n⟩ s c q⟩ ∧ (Fmt.mk n).fitsB d (some q) = true ∧
      (match T.fixedN with
       | some w => n = w
       | none => n = need d (some q) ∨ (need d (some q) > 5 ∧ need d (some q) ≤ n ∧ n ≤ need d (some q) + 1))
  | .none => T.floatInfallible B = false ∧ ∃ cap, T.capN = some cap ∧ cap < need d (some q)
  | .panic => T.floatInfallible B = true ∧ ∃ cap, T.capN = some cap ∧ cap < need d (some q)

/-- the string entry point on the formatter's text, with the exponent-overflow case excluded -/
theorem text_outcome (T : Ty) (ryu : List Nat) (s : Bool) (i fr : List Nat) (ex : Option (Bool × List Nat))
    (hp : Spec.parse ryu = some (.finite s i fr ex)) (hx : inI32 (expValue ex) = true) :
    match tryParseStr T ryu with
    | .ok b => ∃ n, 0 < n ∧ b = ⟨4 * n, encodeFin ⟨n⟩ s (ofDigits (i ++ fr)) (expValue ex - fr.length)⟩ ∧
        (Fmt.mk n).fitsB (i.length + fr.length) (some (expValue ex - fr.length)) = true ∧ b.bits < 2 ^ (32 * n) ∧
        ofDigits (i ++ fr) < 10 ^ (Fmt.mk n).p ∧ (∀ cap, T.capN = some cap → n ≤ cap) ∧
        (match T.fixedN with
         | some w => n = w
         | none => need (i.length + fr.length) (some (expValue ex - fr.length)) ≤ n ∧
             n ≤ need (i.length + fr.length) (some (expValue ex - fr.length)) + 1 ∧
             (need (i.length + fr.length) (some (expValue ex - fr.length)) ≤ 5 →
               n = need (i.length + fr.length) (some (expValue ex - fr.length))))
    | .error (.overflow (.wouldOverflow mx rq)) => ∃ cap n, T.capN = some cap ∧
        cap < need (i.length + fr.length) (some (expValue ex - fr.length)) ∧
        mx = 4 * cap ∧ rq = 4 * n ∧ cap < n ∧ (Fmt.mk n).fitsB (i.length + fr.length) (some (expValue ex - fr.length)) = true
    | .error _ => False := by
  have hout := C06.C01_tryParseStr_finite T ryu s i fr ex hp
  unfold C06.FiniteOutcome at hout
  have hx' : (T.expIsI32 && !inI32 (expValue ex)) = false := by simp [hx]
  rw [hx'] at hout
  simp only [Bool.false_eq_true, if_false] at hout
  cases hr : tryParseStr T ryu with
  | ok b => rw [hr] at hout; exact hout
  | error e =>
    rw [hr] at hout
    cases e with
    | parse pe => exact hout
    | overflow oe => cases oe <;> exact hout

/-- **C12 (exact), general form.** Needs only: the float is finite, the text is a finite numeral that starts with a digit
    or `-` and a digit, and its exponent fits an `i32`. -/
theorem C12_finite_of (T : Ty) (B : BinFmt) (bits : Nat) (ryu : List Nat) (s : Bool) (i fr : List Nat)
    (ex : Option (Bool × List Nat)) (hn : B.isNan bits = false) (hi : B.isInf bits = false)
    (hp : Spec.parse ryu = some (.finite s i fr ex)) (hs : startsWithDigitOrMinusDigit ryu = true)
    (hx : inI32 (expValue ex) = true) :
    FloatOutcome T B s (ofDigits (i ++ fr)) (i.length + fr.length) (expValue ex - fr.length) (fromFloat T B bits ryu) := by
  have hout := text_outcome T ryu s i fr ex hp hx
  rw [fromFloat_eq T B bits ryu hn hi hs]
  cases hr : tryParseStr T ryu with
  | ok b =>
    rw [hr] at hout
    obtain ⟨n, hn, hb, hfit, _, _, _, hw⟩ := hout
    simp only [FloatOutcome]
    refine ⟨n, hn, hb, hfit, ?_⟩
    cases hf : T.fixedN with
    | some w => rw [hf] at hw; exact hw
    | none =>
      rw [hf] at hw
      obtain ⟨h1, h2, h3⟩ := hw
      by_cases h5 : need (i.length + fr.length) (some (expValue ex - fr.length)) ≤ 5
      · exact Or.inl (h3 h5)
      · exact Or.inr ⟨by omega, h1, h2⟩
  | error e =>
    rw [hr] at hout
    cases e with
    | parse pe => exact hout.elim
    | overflow oe =>
      cases oe with
      | wouldOverflow mx rq =>
        obtain ⟨cap, n, hc, hlt, _⟩ := hout
        simp only
        by_cases hinf : T.floatInfallible B = true
        · rw [if_pos hinf]; exact ⟨hinf, cap, hc, hlt⟩
        · have hinf' : T.floatInfallible B = false := by simpa using hinf
          rw [if_neg hinf]; exact ⟨hinf', cap, hc, hlt⟩
      | exponentOutOfRange m => exact hout.elim
      | sizeMismatch g r => exact hout.elim

theorem inI32_of_expo {x : Int} (h : -400 ≤ x ∧ x ≤ 400) : inI32 x = true := by
  simp only [inI32, Bool.and_eq_true, decide_eq_true_eq]; omega

theorem C12_finite_wide (T : Ty) (B : BinFmt) (hB : B = binary32 ∨ B = binary64) (bits : Nat) (ryu : List Nat) (s : Bool)
    (i fr : List Nat) (ex : Option (Bool × List Nat)) (h : RyuContractWide B bits ryu s i fr ex) :
    FloatOutcome T B s (ofDigits (i ++ fr)) (i.length + fr.length) (expValue ex - fr.length) (fromFloat T B bits ryu) := by
  obtain ⟨hn, hi⟩ := finite_of_rounds B hB bits _ _ h.rounds
  exact C12_finite_of T B bits ryu s i fr ex hn hi h.parses h.starts (inI32_of_expo h.expo)

/-- **C12 (exact).** Under the formatter's contract, with `c` the written digits read as an integer, `d` their number
    and `q` the written exponent minus the number of fraction digits: the conversion yields the canonical encoding of
    (sign of the float, `c`, `q`) — the decimal's exact value is the formatter's shortest digits; `-0.0` gives `-0.0`
    with digits `00` and exponent −1 — in the type's width (fixed types) or the smallest sufficient width (dynamic
    types); it fails exactly when those digits and exponent do not fit the type's capacity, with `None` for the fallible
    conversions. -/
theorem C12_finite (T : Ty) (B : BinFmt) (hB : B = binary32 ∨ B = binary64) (bits : Nat) (ryu : List Nat) (s : Bool)
    (i fr : List Nat) (ex : Option (Bool × List Nat)) (h : RyuContract B bits ryu s i fr ex) :
    let c := ofDigits (i ++ fr)
    let d := i.length + fr.length
    let q : Int := expValue ex - fr.length
    match fromFloat T B bits ryu with
    | .ok b => ∃ n, 0 < n ∧ b = ⟨4 * n, encodeFin ⟨n⟩ s c q⟩ ∧ (Fmt.mk n).fitsB d (some q) = true ∧
        (match T.fixedN with
         | some w => n = w
         | none => n = need d (some q) ∨ (need d (some q) > 5 ∧ need d (some q) ≤ n ∧ n ≤ need d (some q) + 1))
    | .none => T.floatInfallible B = false ∧ ∃ cap, T.capN = some cap ∧ cap < need d (some q)
    | .panic => T.floatInfallible B = true ∧ ∃ cap, T.capN = some cap ∧ cap < need d (some q) :=
  C12_finite_wide T B hB bits ryu s i fr ex h.wide

/-! ## 3. the conversions offered as `From` cannot panic -/

/-- the text of the wide contract always fits 128 bits -/
theorem need_le_four {i fr : List Nat} {ex : Option (Bool × List Nat)} (hd : i.length + fr.length ≤ 34)
    (hx : -400 ≤ expValue ex ∧ expValue ex ≤ 400) :
    need (i.length + fr.length) (some (expValue ex - fr.length)) ≤ 4 := by
  rw [need_le_iff _ _ 4 (by decide)]
  have : (Fmt.mk 4).p = 34 ∧ (Fmt.mk 4).qmin ≤ -434 ∧ (400 : Int) ≤ (Fmt.mk 4).qmax := by decide
  simp only [Fmt.fitsB, Bool.and_eq_true, decide_eq_true_eq]
  omega

/-- the text of the contract as stated (at most 17 written digits) even fits 96 bits -/
theorem need_le_three {i fr : List Nat} {ex : Option (Bool × List Nat)} (hd : i.length + fr.length ≤ 17)
    (hx : -400 ≤ expValue ex ∧ expValue ex ≤ 400) :
    need (i.length + fr.length) (some (expValue ex - fr.length)) ≤ 3 := by
  rw [need_le_iff _ _ 3 (by decide)]
  have : (Fmt.mk 3).p = 25 ∧ (Fmt.mk 3).qmin ≤ -417 ∧ (400 : Int) ≤ (Fmt.mk 3).qmax := by decide
  simp only [Fmt.fitsB, Bool.and_eq_true, decide_eq_true_eq]
  omega

/-- at most 16 written digits and an exponent text within ±60 (what `ryu` prints for an `f32`: at most 15 written
    digits, exponent within ±45) fit 64 bits -/
theorem need_le_two {i fr : List Nat} {ex : Option (Bool × List Nat)} (hd : i.length + fr.length ≤ 16)
    (hx : -60 ≤ expValue ex ∧ expValue ex ≤ 60) :
    need (i.length + fr.length) (some (expValue ex - fr.length)) ≤ 2 := by
  rw [need_le_iff _ _ 2 (by decide)]
  have : (Fmt.mk 2).p = 16 ∧ (Fmt.mk 2).qmin ≤ -76 ∧ (60 : Int) ≤ (Fmt.mk 2).qmax := by decide
  simp only [Fmt.fitsB, Bool.and_eq_true, decide_eq_true_eq]
  omega

theorem C12_infallible_wide (T : Ty) (B : BinFmt) (hB : B = binary32 ∨ B = binary64) (bits : Nat) (ryu : List Nat)
    (s : Bool) (i fr : List Nat) (ex : Option (Bool × List Nat)) (h : RyuContractWide B bits ryu s i fr ex)
    (hinf : T.floatInfallible B = true)
    (h64 : T = .b64 → i.length + fr.length ≤ 16 ∧ -60 ≤ expValue ex ∧ expValue ex ≤ 60) :
    ∃ b, fromFloat T B bits ryu = .ok b := by
  have ho := C12_finite_wide T B hB bits ryu s i fr ex h
  cases hr : fromFloat T B bits ryu with
  | ok b => exact ⟨b, rfl⟩
  | none =>
    rw [hr] at ho
    simp only [FloatOutcome] at ho
    rw [hinf] at ho
    exact absurd ho.1 (by simp)
  | panic =>
    rw [hr] at ho
    obtain ⟨_, cap, hc, hlt⟩ := ho
    exfalso
    have h4 := need_le_four h.written h.expo
    cases T with
    | b32 => simp [Ty.floatInfallible] at hinf
    | b64 =>
      obtain ⟨h1, h2⟩ := h64 rfl
      have h2' := need_le_two h1 h2
      simp only [Ty.capN] at hc; injection hc with hc; omega
    | b128 => simp only [Ty.capN] at hc; injection hc with hc; omega
    | dyn => simp only [Ty.capN] at hc; injection hc with hc; omega
    | big => simp [Ty.capN] at hc

/-- **C12 / C05 (the infallible `From` conversions are total).** For every pair the crate offers as infallible
    (`Bitstring64` from `f32`; `Bitstring128`, `Bitstring`, `BigBitstring` from `f32` and `f64`) the conversion of a finite
    float succeeds — no panic in the `expect` — under the formatter's contract.  For `Bitstring64` (offered from `f32`
    only) the contract has to be sharpened to what `ryu` prints for an `f32`: at most 16 written digits (`ryu`: ≤ 15, namely
    `0.` + five zeros + nine digits) and an exponent text within ±60 (`ryu`: within ±45); 17 written digits would not
    fit the 16-digit format.  (NaN and infinity: `C12_inf`, `C12_nan`, no hypothesis at all.) -/
theorem C12_infallible (T : Ty) (B : BinFmt) (hB : B = binary32 ∨ B = binary64) (bits : Nat) (ryu : List Nat)
    (s : Bool) (i fr : List Nat) (ex : Option (Bool × List Nat)) (h : RyuContract B bits ryu s i fr ex)
    (hinf : T.floatInfallible B = true)
    (h64 : T = .b64 → i.length + fr.length ≤ 16 ∧ -60 ≤ expValue ex ∧ expValue ex ≤ 60) :
    ∃ b, fromFloat T B bits ryu = .ok b :=
  C12_infallible_wide T B hB bits ryu s i fr ex h.wide hinf h64

/-- the same with the sharpening phrased on the float format, as in the task statement -/
theorem C12_infallible' (T : Ty) (B : BinFmt) (hB : B = binary32 ∨ B = binary64) (bits : Nat) (ryu : List Nat)
    (s : Bool) (i fr : List Nat) (ex : Option (Bool × List Nat)) (h : RyuContract B bits ryu s i fr ex)
    (hinf : T.floatInfallible B = true)
    (h32 : B = binary32 → i.length + fr.length ≤ 16 ∧ -60 ≤ expValue ex ∧ expValue ex ≤ 60) :
    ∃ b, fromFloat T B bits ryu = .ok b := by
  refine C12_infallible T B hB bits ryu s i fr ex h hinf ?_
  rintro rfl
  apply h32
  rcases hB with rfl | rfl
  · rfl
  · simp [Ty.floatInfallible, binary64] at hinf

/-- **C12 / C07 (dynamic types).** `Bitstring` and `BigBitstring` take exactly the smallest sufficient width (at most
    128 bits) and never fail. -/
theorem C12_dynamic (T : Ty) (hT : T.fixedN = none) (B : BinFmt) (hB : B = binary32 ∨ B = binary64) (bits : Nat)
    (ryu : List Nat) (s : Bool) (i fr : List Nat) (ex : Option (Bool × List Nat))
    (h : RyuContractWide B bits ryu s i fr ex) :
    fromFloat T B bits ryu =
      .ok ⟨4 * need (i.length + fr.length) (some (expValue ex - fr.length)),
        encodeFin ⟨need (i.length + fr.length) (some (expValue ex - fr.length))⟩ s (ofDigits (i ++ fr))
          (expValue ex - fr.length)⟩ ∧
      need (i.length + fr.length) (some (expValue ex - fr.length)) ≤ 4 := by
  have h4 := need_le_four h.written h.expo
  refine ⟨?_, h4⟩
  have hinf : T.floatInfallible B = true := by cases T <;> first | rfl | cases hT
  obtain ⟨b, hb⟩ := C12_infallible_wide T B hB bits ryu s i fr ex h hinf (by rintro rfl; cases hT)
  have ho := C12_finite_wide T B hB bits ryu s i fr ex h
  rw [hb] at ho ⊢
  obtain ⟨n, _, hbb, _, hw⟩ := ho
  rw [hT] at hw
  have hn : n = need (i.length + fr.length) (some (expValue ex - fr.length)) := by
    rcases hw with hw | ⟨hw, _, _⟩
    · exact hw
    · omega
  rw [hbb, hn]

/-! ## 4. infinities and NaNs -/

theorem not_nan_of_inf (B : BinFmt) (bits : Nat) (h : B.isInf bits = true) : B.isNan bits = false := by
  simp only [BinFmt.isInf, beq_iff_eq] at h
  simp only [BinFmt.isNan, decide_eq_false_iff_not]
  omega

/-- **C12 (infinity).** For every type — also the fallible ones: the four-byte allocation cannot fail — an infinite
    float gives the canonical infinity of the same sign at the type's width (32 bits for the dynamic types). -/
theorem C12_inf (T : Ty) (B : BinFmt) (bits : Nat) (ryu : List Nat) (h : B.isInf bits = true) :
    fromFloat T B bits ryu = .ok ⟨4 * C09.baseN T, encodeInf ⟨C09.baseN T⟩ (decide (bits ≥ B.signMask))⟩ := by
  unfold fromFloat
  simp only [not_nan_of_inf B bits h, h, Bool.false_eq_true, if_false, if_true, C09.C09_inf]

/-- **C12 (NaN).** A NaN float gives the canonical quiet NaN without payload, with the float's sign, for every type. -/
theorem C12_nan (T : Ty) (B : BinFmt) (bits : Nat) (ryu : List Nat) (h : B.isNan bits = true) :
    fromFloat T B bits ryu =
      .ok ⟨4 * C09.baseN T, Spec.encodeNan ⟨C09.baseN T⟩ (decide (bits ≥ B.signMask)) false 0⟩ := by
  unfold fromFloat
  simp only [h, if_true, C09.C09_nan_none T _ false _ none rfl]

/-- **C12 (specials)**, both statements together -/
theorem C12_specials (T : Ty) (B : BinFmt) (bits : Nat) (ryu : List Nat) :
    (B.isInf bits = true → fromFloat T B bits ryu =
      .ok ⟨4 * C09.baseN T, encodeInf ⟨C09.baseN T⟩ (decide (bits ≥ B.signMask))⟩) ∧
    (B.isNan bits = true → fromFloat T B bits ryu =
      .ok ⟨4 * C09.baseN T, Spec.encodeNan ⟨C09.baseN T⟩ (decide (bits ≥ B.signMask)) false 0⟩) :=
  ⟨C12_inf T B bits ryu, C12_nan T B bits ryu⟩

/-! ## 5. converting back gives the identical float -/

theorem finite_of_decode (b : Buf) (n : Nat) (h : WF b n) (s : Bool) (c : Nat) (q : Int)
    (hd : decode ⟨n⟩ b.bits = .fin s c q) : isFinite b = true := by
  have hc := C08.C08_ieee b n (DecodeAux.toC08 h)
  rw [hd] at hc
  have : (C08.modelCls b).fin = true := by rw [hc]; rfl
  exact this

theorem C12_back_wide (T : Ty) (B : BinFmt) (hB : B = binary32 ∨ B = binary64) (bits : Nat) (hbits : bits < 2 ^ B.width)
    (ryu : List Nat) (s : Bool) (i fr : List Nat) (ex : Option (Bool × List Nat))
    (h : RyuContractWide B bits ryu s i fr ex) (b : Buf) (hb : fromFloat T B bits ryu = .ok b) :
    toFloat b B = some bits := by
  obtain ⟨hn, hi⟩ := finite_of_rounds B hB bits _ _ h.rounds
  have hout := text_outcome T ryu s i fr ex h.parses (inI32_of_expo h.expo)
  rw [fromFloat_eq T B bits ryu hn hi h.starts] at hb
  cases hr : tryParseStr T ryu with
  | error e =>
    rw [hr] at hb
    cases e with
    | parse pe => cases hb
    | overflow oe => simp only at hb; split at hb <;> cases hb
  | ok b' =>
    rw [hr] at hb hout
    injection hb with hb
    subst hb
    obtain ⟨n, hn0, hbb, hfit, hlt, hc, _, _⟩ := hout
    have hq : (Fmt.mk n).qmin ≤ expValue ex - fr.length ∧ expValue ex - fr.length ≤ (Fmt.mk n).qmax := by
      simp only [Fmt.fitsB, Bool.and_eq_true, decide_eq_true_eq] at hfit
      exact hfit.2
    obtain ⟨hdec, _⟩ := decode_encodeFin n hn0 s _ _ hc hq
    have hwf : WF b' n := ⟨hn0, by rw [hbb], hlt⟩
    have hdec' : decode ⟨n⟩ b'.bits = .fin s (ofDigits (i ++ fr)) (expValue ex - fr.length) := by rw [hbb]; exact hdec
    have hfin := finite_of_decode b' n hwf _ _ _ hdec'
    have hd := decode_finite b' n hwf hfin
    rw [hdec'] at hd
    injection hd with h1 h2 h3
    obtain ⟨_, ha⟩ := allDigits_ascii b' n hwf
    rw [toFloat_finite b' B hfin, ← h1, h.sign]
    apply toFloatFinite_back B hB bits hbits _ ha
    · apply sig_length_le ha
      rw [← h2]; exact h.significant
    · rw [← h3]
      have := h.expo
      have := h.written
      omega
    · rw [← h2, ← h3]; exact h.rounds

/-- **C12 (converting back).** Under the formatter's contract, converting the result back to the same float type
    returns the identical bits (for every type and every width the result may have). -/
theorem C12_back (T : Ty) (B : BinFmt) (hB : B = binary32 ∨ B = binary64) (bits : Nat) (hbits : bits < 2 ^ B.width)
    (ryu : List Nat) (s : Bool) (i fr : List Nat) (ex : Option (Bool × List Nat))
    (h : RyuContract B bits ryu s i fr ex) (b : Buf) (hb : fromFloat T B bits ryu = .ok b) :
    toFloat b B = some bits :=
  C12_back_wide T B hB bits hbits ryu s i fr ex h.wide b hb

/-- **C12 (exact value).** The result denotes exactly (sign of the float, the formatter's digits, its exponent): no digit
    is dropped, added or rounded, trailing zeros the formatter wrote (`1000000000000.0`) are kept. -/
theorem C12_value (T : Ty) (B : BinFmt) (hB : B = binary32 ∨ B = binary64) (bits : Nat)
    (ryu : List Nat) (s : Bool) (i fr : List Nat) (ex : Option (Bool × List Nat))
    (h : RyuContractWide B bits ryu s i fr ex) (b : Buf) (hb : fromFloat T B bits ryu = .ok b) :
    ∃ n, WF b n ∧ decode ⟨n⟩ b.bits = .fin (decide (bits ≥ B.signMask)) (ofDigits (i ++ fr)) (expValue ex - fr.length) := by
  obtain ⟨hn, hi⟩ := finite_of_rounds B hB bits _ _ h.rounds
  have hout := text_outcome T ryu s i fr ex h.parses (inI32_of_expo h.expo)
  rw [fromFloat_eq T B bits ryu hn hi h.starts] at hb
  cases hr : tryParseStr T ryu with
  | error e =>
    rw [hr] at hb
    cases e with
    | parse pe => cases hb
    | overflow oe => simp only at hb; split at hb <;> cases hb
  | ok b' =>
    rw [hr] at hb hout
    injection hb with hb
    subst hb
    obtain ⟨n, hn0, hbb, hfit, hlt, hc, _, _⟩ := hout
    have hq : (Fmt.mk n).qmin ≤ expValue ex - fr.length ∧ expValue ex - fr.length ≤ (Fmt.mk n).qmax := by
      simp only [Fmt.fitsB, Bool.and_eq_true, decide_eq_true_eq] at hfit
      exact hfit.2
    obtain ⟨hdec, _⟩ := decode_encodeFin n hn0 s _ _ hc hq
    exact ⟨n, ⟨hn0, by rw [hbb], hlt⟩, by rw [hbb, ← h.sign]; exact hdec⟩

/-- a bit pattern whose magnitude is `m` and whose sign is its top bit -/
theorem bits_eq_sgn_add (B : BinFmt) (hB : B = binary32 ∨ B = binary64) (bits : Nat) (hbits : bits < 2 ^ B.width) :
    bits = sgnBits B (decide (bits ≥ B.signMask)) + bits % B.signMask := by
  rw [two_signMask B hB] at hbits
  have hpos := signMask_pos B
  by_cases hs : bits ≥ B.signMask
  · simp only [hs, decide_true, sgnBits, if_true]
    rw [Nat.mod_eq_sub_mod hs, Nat.mod_eq_of_lt (by omega)]
    omega
  · simp only [hs, decide_false, sgnBits, Bool.false_eq_true, if_false]
    rw [Nat.mod_eq_of_lt (by omega)]
    omega

/-- **C12 (converting back, infinity).** The encoded infinity converts back to the identical infinite float. -/
theorem C12_back_inf (T : Ty) (B : BinFmt) (hB : B = binary32 ∨ B = binary64) (bits : Nat) (hbits : bits < 2 ^ B.width)
    (ryu : List Nat) (hinf : B.isInf bits = true) (b : Buf) (hb : fromFloat T B bits ryu = .ok b) :
    toFloat b B = some bits := by
  rw [C12_inf T B bits ryu hinf] at hb
  injection hb with hb
  have hn := C09.baseN_pos T
  obtain ⟨hdec, hlt⟩ := decode_encodeInf (C09.baseN T) hn (decide (bits ≥ B.signMask))
  have hwf : WF b (C09.baseN T) := ⟨hn, by rw [← hb], by rw [← hb]; exact hlt⟩
  have hc := C08.C08_ieee b _ (DecodeAux.toC08 hwf)
  have hdec' : decode ⟨C09.baseN T⟩ b.bits = .inf (decide (bits ≥ B.signMask)) := by rw [← hb]; exact hdec
  rw [hdec'] at hc
  have h1 : isFinite b = false := by
    have : (C08.modelCls b).fin = false := by rw [hc]; rfl
    exact this
  have h2 : isInfinite b = true := by
    have : (C08.modelCls b).inf = true := by rw [hc]; rfl
    exact this
  have h3 : isSignNegative b = decide (bits ≥ B.signMask) := by
    have : (C08.modelCls b).neg = decide (bits ≥ B.signMask) := by rw [hc]; rfl
    exact this
  rw [toFloat_infinite b B h1 h2, h3]
  have hm : bits % B.signMask = B.infBits := by simpa [BinFmt.isInf] using hinf
  rw [← hm, ← bits_eq_sgn_add B hB bits hbits]

/-- **C12 (converting back, NaN).** The encoded NaN converts back to the quiet NaN without payload of the same sign
    (the payload and the signaling bit of the original NaN are not carried over: the decimal NaN has none). -/
theorem C12_back_nan (T : Ty) (B : BinFmt) (bits : Nat)
    (ryu : List Nat) (hnan : B.isNan bits = true) (b : Buf) (hb : fromFloat T B bits ryu = .ok b) :
    toFloat b B = some (sgnBits B (decide (bits ≥ B.signMask)) + quietNanBits B) := by
  rw [C12_nan T B bits ryu hnan] at hb
  injection hb with hb
  have hn := C09.baseN_pos T
  obtain ⟨hdec, hlt⟩ := decode_encodeNan (C09.baseN T) hn (decide (bits ≥ B.signMask)) false 0 (Nat.pow_pos (by decide))
  have hwf : WF b (C09.baseN T) := ⟨hn, by rw [← hb], by rw [← hb]; exact hlt⟩
  have hc := C08.C08_ieee b _ (DecodeAux.toC08 hwf)
  have hdec' : decode ⟨C09.baseN T⟩ b.bits = .nan (decide (bits ≥ B.signMask)) false 0 := by rw [← hb]; exact hdec
  rw [hdec'] at hc
  have h1 : isFinite b = false := by
    have : (C08.modelCls b).fin = false := by rw [hc]; rfl
    exact this
  have h2 : isInfinite b = false := by
    have : (C08.modelCls b).inf = false := by rw [hc]; rfl
    exact this
  have h3 : isSignNegative b = decide (bits ≥ B.signMask) := by
    have : (C08.modelCls b).neg = decide (bits ≥ B.signMask) := by rw [hc]; rfl
    exact this
  have h4 : isNan b = true := by
    have : (C08.modelCls b).nan = true := by rw [hc]; rfl
    exact this
  have hpl := decode_nan b _ hwf h4
  rw [hdec'] at hpl
  injection hpl with _ _ hpl
  rw [toFloat_nan b B h1 h2, h3, toFloatNan_eq,
    intFromAscii_eq ⟨true, B.width⟩ false _ (by simp), ← hpl]
  have h0 : IntTy.contains ⟨true, B.width⟩ (sgnVal false 0) = true := by
    simp only [sgnVal]
    exact contains_zero _
  have h00 : sgnVal false 0 = 0 := by simp [sgnVal]
  rw [h0, h00]
  simp [nanMagnitude]

/-! ## non-vacuity: instances of the contract, and of every main theorem on them -/

/-- the `f64` `1.5` (`0x3FF8000000000000`), printed `1.5` -/
theorem ryu_f64_1_5 : RyuContract binary64 0x3FF8000000000000 [49, 46, 53] false [1] [5] none :=
  ⟨by decide +kernel, by decide, by decide, by decide, by decide, by decide +kernel⟩

/-- the `f32` `1e12` (`0x5368D4A5`), printed `1000000000000.0`: 14 written digits -/
theorem ryu_f32_1e12 : RyuContract binary32 0x5368D4A5 [49, 48, 48, 48, 48, 48, 48, 48, 48, 48, 48, 48, 48, 46, 48] false
    [1, 0, 0, 0, 0, 0, 0, 0, 0, 0, 0, 0, 0] [0] none :=
  ⟨by decide +kernel, by decide, by decide, by decide, by decide, by decide +kernel⟩

/-- the `f64` `-0.0`, printed `-0.0`: sign kept, digits `00`, exponent −1 -/
theorem ryu_f64_neg_zero : RyuContract binary64 0x8000000000000000 [45, 48, 46, 48] true [0] [0] none :=
  ⟨by decide +kernel, by decide, by decide, by decide, by decide, by decide +kernel⟩

/-- the `f64` `-2.5e-7` (`0xBE90C6F7A0B5ED8D`), printed `-2.5e-7`: sign, fraction and negative exponent -/
theorem ryu_f64_sci : RyuContract binary64 0xBE90C6F7A0B5ED8D [45, 50, 46, 53, 101, 45, 55] true [2] [5] (some (true, [7])) :=
  ⟨by decide +kernel, by decide, by decide, by decide, by decide, by decide +kernel⟩

/-- the `f64` `1.2345678901234568e-5` (`0x3EE9E409302678BA`), printed `0.000012345678901234568`: 22 written digits, so the
    contract as stated does not cover it, the wide one does -/
theorem ryu_f64_positional : RyuContractWide binary64 0x3EE9E409302678BA
    [48, 46, 48, 48, 48, 48, 49, 50, 51, 52, 53, 54, 55, 56, 57, 48, 49, 50, 51, 52, 53, 54, 56] false
    [0] [0, 0, 0, 0, 1, 2, 3, 4, 5, 6, 7, 8, 9, 0, 1, 2, 3, 4, 5, 6, 8] none :=
  ⟨by decide +kernel, by decide, by decide, by decide, by decide +kernel, by decide, by decide +kernel⟩

/-- `C12_finite` on `1.5f64 → Bitstring64`: the model's answer, computed, is the `.ok` the theorem describes -/
example : fromFloat .b64 binary64 0x3FF8000000000000 [49, 46, 53] = .ok ⟨8, encodeFin ⟨2⟩ false 15 (-1)⟩ := by
  decide +kernel
example : FloatOutcome .b64 binary64 false 15 2 (-1) (.ok ⟨8, encodeFin ⟨2⟩ false 15 (-1)⟩) := by
  have h := C12_finite_wide .b64 binary64 (Or.inr rfl) 0x3FF8000000000000 [49, 46, 53] false [1] [5] none ryu_f64_1_5.wide
  rw [show fromFloat .b64 binary64 0x3FF8000000000000 [49, 46, 53] = .ok ⟨8, encodeFin ⟨2⟩ false 15 (-1)⟩ by
    decide +kernel] at h
  exact h
/-- … and on `1e12f32 → Bitstring32`, where 14 written digits do not fit: `None`, and the theorem's reason (`1 < need`) -/
example : FloatOutcome .b32 binary32 false 10000000000000 14 (-1) .none := by
  have h := C12_finite_wide .b32 binary32 (Or.inl rfl) 0x5368D4A5 [49, 48, 48, 48, 48, 48, 48, 48, 48, 48, 48, 48, 48, 46, 48] false
    [1, 0, 0, 0, 0, 0, 0, 0, 0, 0, 0, 0, 0] [0] none ryu_f32_1e12.wide
  rw [show fromFloat .b32 binary32 0x5368D4A5 [49, 48, 48, 48, 48, 48, 48, 48, 48, 48, 48, 48, 48, 46, 48] = .none by
    decide +kernel] at h
  exact h
/-- `C12_infallible` on `Bitstring64::from(1e12f32)` (the sharpened hypothesis holds: 14 ≤ 16 digits, no exponent) and on
    `Bitstring128::from(-2.5e-7f64)` -/
example : ∃ b, fromFloat .b64 binary32 0x5368D4A5 [49, 48, 48, 48, 48, 48, 48, 48, 48, 48, 48, 48, 48, 46, 48] = .ok b :=
  C12_infallible .b64 binary32 (Or.inl rfl) 0x5368D4A5 [49, 48, 48, 48, 48, 48, 48, 48, 48, 48, 48, 48, 48, 46, 48] false
    [1, 0, 0, 0, 0, 0, 0, 0, 0, 0, 0, 0, 0] [0] none ryu_f32_1e12 rfl (fun _ => by decide)
example : ∃ b, fromFloat .b128 binary64 0xBE90C6F7A0B5ED8D [45, 50, 46, 53, 101, 45, 55] = .ok b :=
  C12_infallible .b128 binary64 (Or.inr rfl) 0xBE90C6F7A0B5ED8D [45, 50, 46, 53, 101, 45, 55] true [2] [5] (some (true, [7])) ryu_f64_sci rfl
    (fun h => by cases h)
/-- `C12_dynamic` on the 22-digit text: `Bitstring` takes 96 bits -/
example : fromFloat .dyn binary64 0x3EE9E409302678BA
    [48, 46, 48, 48, 48, 48, 49, 50, 51, 52, 53, 54, 55, 56, 57, 48, 49, 50, 51, 52, 53, 54, 56] =
    .ok ⟨12, encodeFin ⟨3⟩ false 12345678901234568 (-21)⟩ := by
  have h := (C12_dynamic .dyn rfl binary64 (Or.inr rfl) 0x3EE9E409302678BA
    [48, 46, 48, 48, 48, 48, 49, 50, 51, 52, 53, 54, 55, 56, 57, 48, 49, 50, 51, 52, 53, 54, 56] false [0]
    [0, 0, 0, 0, 1, 2, 3, 4, 5, 6, 7, 8, 9, 0, 1, 2, 3, 4, 5, 6, 8] none ryu_f64_positional).1
  have hn : need (([0] : List Nat).length + [0, 0, 0, 0, 1, 2, 3, 4, 5, 6, 7, 8, 9, 0, 1, 2, 3, 4, 5, 6, 8].length)
      (some (expValue none - ([0, 0, 0, 0, 1, 2, 3, 4, 5, 6, 7, 8, 9, 0, 1, 2, 3, 4, 5, 6, 8].length : Nat))) = 3 := by
    decide +kernel
  rw [hn] at h
  exact h
/-- `C12_back` on these -/
example (b : Buf) (hb : fromFloat .b128 binary64 0xBE90C6F7A0B5ED8D [45, 50, 46, 53, 101, 45, 55] = .ok b) :
    toFloat b binary64 = some 0xBE90C6F7A0B5ED8D :=
  C12_back .b128 binary64 (Or.inr rfl) 0xBE90C6F7A0B5ED8D (by decide) [45, 50, 46, 53, 101, 45, 55] true [2] [5] (some (true, [7]))
    ryu_f64_sci b hb
example (b : Buf) (hb : fromFloat .big binary64 0x3EE9E409302678BA
    [48, 46, 48, 48, 48, 48, 49, 50, 51, 52, 53, 54, 55, 56, 57, 48, 49, 50, 51, 52, 53, 54, 56] = .ok b) :
    toFloat b binary64 = some 0x3EE9E409302678BA :=
  C12_back_wide .big binary64 (Or.inr rfl) 0x3EE9E409302678BA (by decide)
    [48, 46, 48, 48, 48, 48, 49, 50, 51, 52, 53, 54, 55, 56, 57, 48, 49, 50, 51, 52, 53, 54, 56] false [0]
    [0, 0, 0, 0, 1, 2, 3, 4, 5, 6, 7, 8, 9, 0, 1, 2, 3, 4, 5, 6, 8] none ryu_f64_positional b hb
example : (match fromFloat .b64 binary64 0x8000000000000000 [45, 48, 46, 48] with
    | .ok b => toFloat b binary64 | _ => none) = some 0x8000000000000000 := by decide +kernel
/-- specials: `-inf` (`f32`) into `Bitstring32` (a fallible type), a signaling NaN with payload (`f64`) into `Bitstring` -/
example : fromFloat .b32 binary32 0xFF800000 [] = .ok ⟨4, encodeInf ⟨1⟩ true⟩ :=
  C12_inf .b32 binary32 0xFF800000 [] (by decide)
example : fromFloat .dyn binary64 0x7FF0000000000123 [] = .ok ⟨4, Spec.encodeNan ⟨1⟩ false false 0⟩ :=
  C12_nan .dyn binary64 0x7FF0000000000123 [] (by decide)
example (b : Buf) (hb : fromFloat .b32 binary32 0xFF800000 [] = .ok b) : toFloat b binary32 = some 0xFF800000 :=
  C12_back_inf .b32 binary32 (Or.inl rfl) 0xFF800000 (by decide) [] (by decide) b hb

end Decstr.Props.C12

#print axioms Decstr.Props.C12.fromFloat_eq
#print axioms Decstr.Props.C12.C12_finite_of
#print axioms Decstr.Props.C12.C12_finite_wide
#print axioms Decstr.Props.C12.C12_finite
#print axioms Decstr.Props.C12.C12_infallible_wide
#print axioms Decstr.Props.C12.C12_infallible
#print axioms Decstr.Props.C12.C12_infallible'
#print axioms Decstr.Props.C12.C12_dynamic
#print axioms Decstr.Props.C12.C12_inf
#print axioms Decstr.Props.C12.C12_nan
#print axioms Decstr.Props.C12.C12_specials
#print axioms Decstr.Props.C12.C12_back_wide
#print axioms Decstr.Props.C12.C12_back
#print axioms Decstr.Props.C12.C12_value
#print axioms Decstr.Props.C12.C12_back_inf
#print axioms Decstr.Props.C12.C12_back_nan
