import Decstr.Props.C06
/-!
# C04 — no rounding or clamping: a numeral is accepted iff it fits exactly;  C17 — overflow errors are truthful

Corollaries of `C06.C01_tryParseStr_finite` (which already says that an accepted numeral is encoded exactly).
-/
namespace Decstr.Props.C04
open Decstr.Model Decstr.Spec Decstr.Proofs

theorem range5 : (Fmt.mk 5).qmax = 24534 ∧ (Fmt.mk 5).qmin = -24617 ∧ (Fmt.mk 5).p = 43 := by decide

/-- **C04 (accepted iff it fits).** A bounded type accepts a grammatical finite numeral exactly when the smallest
    sufficient width for its written digit count and its exponent (after subtracting the fractional digits) is within
    the type's capacity — for exponents at and beyond the 32-bit limits too. -/
theorem C04_accept_iff (T : Ty) (cap : Nat) (hcap : T.capN = some cap) (txt : List Nat) (s : Bool) (i fr : List Nat)
    (ex : Option (Bool × List Nat)) (hp : Spec.parse txt = some (.finite s i fr ex)) :
    (∃ b, tryParseStr T txt = .ok b) ↔ need (i.length + fr.length) (some (expValue ex - fr.length)) ≤ cap := by
  have hout := C06.C01_tryParseStr_finite T txt s i fr ex hp
  have hc5 := C01.capN_le_five T cap hcap
  have hi := C01.expIsI32_of_cap T cap hcap
  unfold C06.FiniteOutcome at hout
  constructor
  · rintro ⟨b, hb⟩
    rw [hb] at hout
    by_cases hx : (T.expIsI32 && !inI32 (expValue ex)) = true
    · rw [hx] at hout; simp at hout
    · have hx' : (T.expIsI32 && !inI32 (expValue ex)) = false := by simpa using hx
      rw [hx'] at hout
      simp only [Bool.false_eq_true, if_false] at hout
      obtain ⟨n, hn, _, hfit, _, _, hcn, _⟩ := hout
      have := hcn cap hcap
      have := (need_le_iff _ _ n hn).2 hfit
      omega
  · intro hle
    -- the numeral fits 160 bits, so its written exponent is far inside the i32 range
    have hcp : 0 < cap := by cases T <;> simp [Ty.capN] at hcap <;> omega
    have hfit5 : (Fmt.mk 5).fitsB (i.length + fr.length) (some (expValue ex - fr.length)) = true :=
      (need_le_iff _ _ 5 (by decide)).1 (by omega)
    obtain ⟨r1, r2, r3⟩ := range5
    simp only [Fmt.fitsB, Bool.and_eq_true, decide_eq_true_eq, r1, r2, r3] at hfit5
    have hx' : (T.expIsI32 && !inI32 (expValue ex)) = false := by
      have : inI32 (expValue ex) = true := by
        simp only [inI32, Bool.and_eq_true, decide_eq_true_eq]; constructor <;> omega
      simp [this]
    rw [hx'] at hout
    simp only [Bool.false_eq_true, if_false] at hout
    cases hr : tryParseStr T txt with
    | ok b => exact ⟨b, rfl⟩
    | error e =>
      rw [hr] at hout
      exfalso
      cases e with
      | parse pe => exact hout
      | overflow oe =>
        cases oe with
        | wouldOverflow mx rq =>
          obtain ⟨cap', m, hc', hlt, _⟩ := hout
          rw [hcap] at hc'; injection hc' with hc'; omega
        | exponentOutOfRange m => exact hout
        | sizeMismatch g r => exact hout

/-- **C04 (what the property asks).** Accepted whenever the written digit count is at most `p` and the exponent lies
    in `[−bias, emax − p + 1]` of the type's (largest) width; rejected whenever it would not fit even with redundant
    leading zeros removed (`sd ≤ d` significant digits). -/
theorem C04_accept (T : Ty) (cap : Nat) (hcap : T.capN = some cap) (txt : List Nat) (s : Bool) (i fr : List Nat)
    (ex : Option (Bool × List Nat)) (hp : Spec.parse txt = some (.finite s i fr ex))
    (hd : i.length + fr.length ≤ (Fmt.mk cap).p)
    (hq : (Fmt.mk cap).qmin ≤ expValue ex - fr.length ∧ expValue ex - fr.length ≤ (Fmt.mk cap).qmax) :
    ∃ b, tryParseStr T txt = .ok b := by
  have hcp : 0 < cap := by cases T <;> simp [Ty.capN] at hcap <;> omega
  rw [C04_accept_iff T cap hcap txt s i fr ex hp, need_le_iff _ _ cap hcp]
  simp [Fmt.fitsB, hd, hq.1, hq.2]

theorem C04_reject (T : Ty) (cap : Nat) (hcap : T.capN = some cap) (txt : List Nat) (s : Bool) (i fr : List Nat)
    (ex : Option (Bool × List Nat)) (hp : Spec.parse txt = some (.finite s i fr ex))
    (sd : Nat) (hsd : sd ≤ i.length + fr.length) (hno : cap < need sd (some (expValue ex - fr.length))) :
    ∃ e, tryParseStr T txt = .error e := by
  have hmono := need_mono_digits sd (i.length + fr.length) (some (expValue ex - fr.length)) hsd
  cases hr : tryParseStr T txt with
  | error e => exact ⟨e, rfl⟩
  | ok b =>
    have := (C04_accept_iff T cap hcap txt s i fr ex hp).1 ⟨b, hr⟩
    omega

/-- **C07 (BigBitstring accepts every grammatical finite numeral).** -/
theorem C04_big_total (txt : List Nat) (s : Bool) (i fr : List Nat) (ex : Option (Bool × List Nat))
    (hp : Spec.parse txt = some (.finite s i fr ex)) : ∃ b, tryParseStr .big txt = .ok b := by
  have hout := C06.C01_tryParseStr_finite .big txt s i fr ex hp
  unfold C06.FiniteOutcome at hout
  simp only [Ty.expIsI32, Bool.false_and, Bool.false_eq_true, if_false] at hout
  cases hr : tryParseStr .big txt with
  | ok b => exact ⟨b, rfl⟩
  | error e =>
    rw [hr] at hout
    exfalso
    cases e with
    | parse pe => exact hout
    | overflow oe =>
      cases oe with
      | wouldOverflow mx rq => obtain ⟨cap', m, hc', _⟩ := hout; simp [Ty.capN] at hc'
      | exponentOutOfRange m => exact hout
      | sizeMismatch g r => exact hout

/-- **C17 (overflow errors are truthful).** When a bounded type rejects a grammatical finite numeral, the error is
    either the exponent overflow without a width (exactly when the written exponent does not fit an `i32`) or names the
    type's capacity and a needed width that is strictly larger, a multiple of 4 bytes, and genuinely sufficient. -/
theorem C17_overflow (T : Ty) (txt : List Nat) (s : Bool) (i fr : List Nat) (ex : Option (Bool × List Nat))
    (hp : Spec.parse txt = some (.finite s i fr ex)) (e : Err) (he : tryParseStr T txt = .error e) :
    (T.expIsI32 = true ∧ inI32 (expValue ex) = false ∧ e = .overflow (.exponentOutOfRange 4)) ∨
    (inI32 (expValue ex) = true ∧ ∃ cap n, T.capN = some cap ∧ e = .overflow (.wouldOverflow (4 * cap) (4 * n)) ∧ cap < n ∧
      (Fmt.mk n).fitsB (i.length + fr.length) (some (expValue ex - fr.length)) = true) := by
  have hout := C06.C01_tryParseStr_finite T txt s i fr ex hp
  unfold C06.FiniteOutcome at hout
  rw [he] at hout
  by_cases hx : (T.expIsI32 && !inI32 (expValue ex)) = true
  · rw [hx] at hout
    simp only [if_true] at hout
    injection hout with hout
    simp only [Bool.and_eq_true, Bool.not_eq_true'] at hx
    exact Or.inl ⟨hx.1, hx.2, hout⟩
  · have hx' : (T.expIsI32 && !inI32 (expValue ex)) = false := by simpa using hx
    rw [hx'] at hout
    simp only [Bool.false_eq_true, if_false] at hout
    cases e with
    | parse pe => exact hout.elim
    | overflow oe =>
      cases oe with
      | wouldOverflow mx rq =>
        obtain ⟨cap, n, hc, _, h1, h2, hcn, hf⟩ := hout
        subst h1 h2
        have hi := C01.expIsI32_of_cap T cap hc
        simp only [hi, Bool.true_and, Bool.not_eq_false'] at hx'
        exact Or.inr ⟨hx', cap, n, hc, rfl, hcn, hf⟩
      | exponentOutOfRange m => exact hout.elim
      | sizeMismatch g r => exact hout.elim

end Decstr.Props.C04
