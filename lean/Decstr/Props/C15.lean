import Decstr.Props.C03
import Decstr.Props.C11
import Decstr.Props.C13
/-!
# C15 — all decimal types agree: one codec regardless of container or exponent type

In the model the five types differ only in capacity, in the text buffer, and in the exponent arithmetic
(`i32` with saturation vs. unbounded integers).  The codec theorems (C01, C02, C08, C09, C11, C13) are all stated for an
arbitrary type; the statements below make the agreement explicit.
-/
namespace Decstr.Props.C15
open Decstr.Model Decstr.Spec Decstr.Proofs

/-- **C15 (numerals).** A finite numeral accepted by two types denotes the same sign, coefficient and exponent in each
    and has identical bytes whenever the widths coincide. -/
theorem C15_parse (T₁ T₂ : Ty) (txt : List Nat) (s : Bool) (i fr : List Nat) (ex : Option (Bool × List Nat))
    (hp : Spec.parse txt = some (.finite s i fr ex)) (b₁ b₂ : Buf)
    (h₁ : tryParseStr T₁ txt = .ok b₁) (h₂ : tryParseStr T₂ txt = .ok b₂) :
    ∃ n₁ n₂, WF b₁ n₁ ∧ WF b₂ n₂ ∧ decode ⟨n₁⟩ b₁.bits = decode ⟨n₂⟩ b₂.bits ∧ (b₁.len = b₂.len → b₁ = b₂) := by
  have key : ∀ T b, tryParseStr T txt = .ok b → ∃ n, 0 < n ∧ b = ⟨4 * n, encodeFin ⟨n⟩ s (ofDigits (i ++ fr)) (expValue ex - fr.length)⟩ ∧
      WF b n ∧ decode ⟨n⟩ b.bits = .fin s (ofDigits (i ++ fr)) (expValue ex - fr.length) := by
    intro T b hb
    have hout := C06.C01_tryParseStr_finite T txt s i fr ex hp
    unfold C06.FiniteOutcome at hout
    rw [hb] at hout
    by_cases hx : (T.expIsI32 && !inI32 (expValue ex)) = true
    · rw [hx] at hout; simp at hout
    · have hx' : (T.expIsI32 && !inI32 (expValue ex)) = false := by simpa using hx
      rw [hx'] at hout
      simp only [Bool.false_eq_true, if_false] at hout
      obtain ⟨n, hn, hbb, hfit, hlt, hc, _, _⟩ := hout
      have hfit' := hfit
      simp only [Fmt.fitsB, Bool.and_eq_true, decide_eq_true_eq] at hfit'
      refine ⟨n, hn, hbb, ⟨hn, by rw [hbb], hlt⟩, ?_⟩
      rw [hbb]; exact (decode_encodeFin n hn s _ _ hc ⟨hfit'.2.1, hfit'.2.2⟩).1
  obtain ⟨n₁, _, e₁, w₁, d₁⟩ := key T₁ b₁ h₁
  obtain ⟨n₂, _, e₂, w₂, d₂⟩ := key T₂ b₂ h₂
  refine ⟨n₁, n₂, w₁, w₂, by rw [d₁, d₂], ?_⟩
  intro hl
  rw [e₁, e₂] at hl ⊢
  simp only at hl
  have : n₁ = n₂ := by omega
  subst this; rfl

/-- **C15 (bytes): formatting.** The same bytes format to text denoting the same datum in every type able to hold them. -/
theorem C15_format (T₁ T₂ : Ty) (b : Buf) (n : Nat) (h : WF b n) (h1 : C02.Holds T₁ n) (h2 : C02.Holds T₂ n) :
    ∃ num₁ num₂, parse (toText T₁ b) = some num₁ ∧ parse (toText T₂ b) = some num₂ ∧ num₁.datum = num₂.datum :=
  C02.C02_bytes_only T₁ T₂ b n h h1 h2

/-- **C15 (bytes): integer conversion** does not depend on the container or on the exponent representation. -/
theorem C15_toInt (T₁ T₂ : Ty) (b : Buf) (n : Nat) (h : WF b n) (hn : n < 2 ^ 27) (I : IntTy) (hI : I.bits ≤ 128) :
    toInt T₁ b I = toInt T₂ b I := by
  by_cases hfin : isFinite b = true
  · obtain ⟨s₁, c₁, e₁, hd₁, he₁⟩ := C11.C11_eq T₁ b n h hn I hI hfin
    obtain ⟨s₂, c₂, e₂, hd₂, he₂⟩ := C11.C11_eq T₂ b n h hn I hI hfin
    rw [hd₁] at hd₂
    injection hd₂ with a b' c
    subst a b' c
    rw [he₁, he₂]
  · have hnf : isFinite b = false := by simpa using hfin
    rw [C11.C11_specials T₁ b n h hn I hI hnf, C11.C11_specials T₂ b n h hn I hI hnf]

/- Classification (`isFinite … isSignNegative`) and `toFloat` take no type argument in the model, so there is nothing to
   prove about them here; that the *implementation's* five types agree on them is what the pairwise comparison of the
   C15 check establishes on every run. -/

end Decstr.Props.C15
