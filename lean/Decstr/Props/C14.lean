import Decstr.Proofs.Stream
/-!
# C14 — streaming parse equals string parse for every fragmentation of the text

`tryParse T frags fault` is the model of `T::try_parse(display)` for a `Display` that delivers `frags` through
`write_str`/`write_char` (a `write_char` is a one-character `write_str`), `tryParseStr T text` of `T::try_parse_str`.
No bound on the number, size or content of the fragments (empty fragments included).
-/
namespace Decstr.Props.C14
open Decstr.Model Decstr.Spec Decstr.Proofs

/-- the fixed text buffer of a type, if it has one -/
def textCap (T : Ty) : Option Nat :=
  match T.textKind with
  | .array cap => some cap
  | _ => none

/-- **C14 (every fragmentation).** Streaming gives exactly the outcome of the string entry point on the concatenation
    — same bytes, same error — for every fragment list; the only other possible outcome is "buffer too small", and
    only for a type with a fixed text buffer and a text longer than that buffer. -/
theorem C14_frag (T : Ty) (frs : List (List Nat)) :
    tryParse T frs .none = tryParseStr T frs.flatten ∨
    (tryParse T frs .none = .error (.parse .bufferTooSmall) ∧ ∃ cap, textCap T = some cap ∧ cap < frs.flatten.length) := by
  by_cases hT : T = .big
  · subst hT; left; exact C14_tryParse_vec frs
  · obtain ⟨cap, hc⟩ : ∃ cap, T.textKind = .array cap := by
      cases T <;> first | exact absurd rfl hT | exact ⟨_, rfl⟩
    by_cases hl : frs.flatten.length ≤ cap
    · left; exact C14_tryParse_array_fits T cap hc frs hl
    · rcases C14_tryParse_array T hT frs with h | h
      · right; exact ⟨h, cap, by simp [textCap, hc], by omega⟩
      · left; exact h

/-- **C14 (fits).** A text no longer than the type's text buffer never gets "buffer too small". -/
theorem C14_fits (T : Ty) (cap : Nat) (hc : textCap T = some cap) (frs : List (List Nat)) (h : frs.flatten.length ≤ cap) :
    tryParse T frs .none = tryParseStr T frs.flatten := by
  have : T.textKind = .array cap := by
    cases T <;> simp [textCap, Ty.textKind] at hc ⊢ <;> exact hc
  exact C14_tryParse_array_fits T cap this frs h

/-- **C14 (failing source).** A `Display` that reports failure — before any fragment `k ≤ |frags|`, or at the end —
    yields an error, never a value built from the partial text. -/
theorem C14_fault (T : Ty) (frs : List (List Nat)) (k : Nat) (hk : k ≤ frs.length) :
    ∃ e, tryParse T frs (.failAt k) = .error e := by
  obtain ⟨e, he⟩ := C14_fail T.textKind frs k hk
  exact ⟨.parse e, by simp [tryParse, he]⟩

/-- **C14 (error-swallowing source).** A `Display` that ignores the errors it is handed gets exactly the outcome of an
    honest one: a rejected text stays rejected. -/
theorem C14_swallow (T : Ty) (frs : List (List Nat)) : tryParse T frs .swallow = tryParse T frs .none := by
  simp [tryParse, parseFmt_swallow]

/-- the text buffers: 32, 64, 128, 128 bytes and unbounded -/
example : textCap .b32 = some 32 ∧ textCap .b64 = some 64 ∧ textCap .b128 = some 128 ∧ textCap .dyn = some 128 ∧ textCap .big = none := by
  decide

end Decstr.Props.C14
