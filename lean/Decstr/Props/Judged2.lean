import Decstr.Props.Judged
import Mathlib.Tactic.Ring
import Mathlib.Tactic.Linarith
import Mathlib.Tactic.Positivity
import Mathlib.Algebra.Order.Field.Power
/-!
# Judged2 — the oracle's additional judgements accept every answer of the model

`Decstr/Spec/Judge.lean` ends with four additional judgements (`judgeGrammarReject`, `judgeClassAgree`, `leScaled` /
`judgeWithinLimits`).  As `Judged.lean` does for the other judgements, this file shows that each returns no complaint
on the answer the model gives, that `leScaled` is the exact comparison it is meant to be, and that the judgements are
not vacuous.
-/
namespace Decstr.Props.Judged2
open Decstr.Model Decstr.Spec Decstr.Proofs Decstr.Proofs.Judge Decstr.Props.Judged

/-! ## C06: a grammatical string is never answered with a syntax-class error -/

/-- an overflow error is never of a syntax class -/
theorem judgeGrammarReject_overflow (txt : List Nat) (streaming : Bool) (oe : OverflowErr) :
    judgeGrammarReject txt streaming (.err (errFacts (.overflow oe))) = [] := by
  unfold judgeGrammarReject
  cases parse txt with
  | none => rfl
  | some num => cases oe <;> cases streaming <;> simp only [errFacts] <;> exact chk_of _ _ _ (by decide)

/-- on a grammatical string the string entry point answers a value or an overflow error -/
theorem tryParseStr_grammatical (T : Ty) (txt : List Nat) (h : (parse txt).isSome = true) :
    (∃ b, tryParseStr T txt = .ok b) ∨ (∃ oe, tryParseStr T txt = .error (.overflow oe)) := by
  obtain ⟨p, hps⟩ := (C06.C06_accepts_iff txt).2 h
  cases hf : fromParsed T p with
  | ok b => exact Or.inl ⟨b, by simp only [tryParseStr, hps, hf, liftOverflow]⟩
  | error oe => exact Or.inr ⟨oe, by simp only [tryParseStr, hps, hf, liftOverflow]⟩

/-- the string entry point's answer passes the rule, whichever entry point it is attributed to -/
theorem judgeGrammarReject_str (T : Ty) (txt : List Nat) (streaming : Bool) :
    judgeGrammarReject txt streaming (pans (tryParseStr T txt)) = [] := by
  cases hp : parse txt with
  | none => simp only [judgeGrammarReject, hp]
  | some num =>
    rcases tryParseStr_grammatical T txt (by rw [hp]; rfl) with ⟨b, hb⟩ | ⟨oe, hoe⟩
    · rw [hb]; simp only [pans, judgeGrammarReject, hp]
    · rw [hoe]; exact judgeGrammarReject_overflow txt streaming oe

/-- **C06 (string entry point): the oracle's wrongful-rejection rule accepts the model's answer to every `parse_str`
    request.** -/
theorem judgeGrammarReject_model (T : Ty) (txt : List Nat) :
    judgeGrammarReject txt false (pans (tryParseStr T txt)) = [] :=
  judgeGrammarReject_str T txt false

/-- **C06 (streaming entry point): the same for every `parse_fmt` request whose source does not report failure**
    (an honest `Display` or one that swallows the errors it is handed), for every fragmentation.  No hypothesis about
    the text capacity is needed: "buffer too small" is an answer the rule permits to the streaming entry point. -/
theorem judgeGrammarReject_model_fmt (T : Ty) (frags : List (List Nat)) (fault : Fault)
    (hF : fault = .none ∨ fault = .swallow) :
    judgeGrammarReject frags.flatten true (pans (tryParse T frags fault)) = [] := by
  have hFn : tryParse T frags fault = tryParse T frags .none := by
    rcases hF with rfl | rfl
    · rfl
    · exact C14.C14_swallow T frags
  rw [hFn]
  rcases C14.C14_frag T frags with h | ⟨h, _⟩
  · rw [h]; exact judgeGrammarReject_str T _ true
  · rw [h]
    simp only [pans, errFacts, judgeGrammarReject]
    cases parse frags.flatten with
    | none => rfl
    | some num => exact chk_of _ _ _ (by decide)

/-! ## C08: conversions act on the class IEEE assigns -/

theorem judgeClassAgree_nil (bytes : List Nat) : judgeClassAgree bytes [] = [] := by
  unfold judgeClassAgree
  split <;> rfl

/-- **C08 / C11:** same hypotheses as `Judged.judgeToInt_model`. -/
theorem judgeClassAgree_toInt_model (T : Ty) (hT : T ≠ .big) (bytes : List Nat) (h : T.holds bytes.length = true)
    (hb : ∀ x ∈ bytes, x < 256) (I : IntTy) (hI : I.bits ≤ 128) :
    judgeClassAgree bytes (judgeToInt bytes I (oans (toInt T (Buf.ofBytes bytes) I))) = [] := by
  rw [judgeToInt_model T hT bytes h hb I hI]
  exact judgeClassAgree_nil bytes

/-- the same with the hypotheses of `Judged.judgeToInt_model_partial` (all five types, buffers below 2^29 bytes) -/
theorem judgeClassAgree_toInt_model_partial (T : Ty) (bytes : List Nat) (h : T.holds bytes.length = true)
    (hb : ∀ x ∈ bytes, x < 256) (I : IntTy) (hI : I.bits ≤ 128) (hlen : bytes.length < 2 ^ 29) :
    judgeClassAgree bytes (judgeToInt bytes I (oans (toInt T (Buf.ofBytes bytes) I))) = [] := by
  rw [judgeToInt_model_partial T bytes h hb I hI hlen]
  exact judgeClassAgree_nil bytes

/-- **C08 / C13:** same hypotheses as `Judged.judgeToFloat_model`. -/
theorem judgeClassAgree_toFloat_model (T : Ty) (bytes : List Nat) (h : T.holds bytes.length = true)
    (hb : ∀ x ∈ bytes, x < 256) (B : BinFmt) (hB : B = binary32 ∨ B = binary64) :
    judgeClassAgree bytes (judgeToFloat T bytes B (modelToFloatAns T B (toFloat (Buf.ofBytes bytes) B))) = [] := by
  rw [judgeToFloat_model T bytes h hb B hB]
  exact judgeClassAgree_nil bytes

/-! ## `leScaled` is the exact comparison `c·10^e ≤ m·10^q` -/

/-- for `m ≥ 1`, `10 ^ (digits10 m - 1) ≤ m` -/
theorem pow_digits10_pred_le (m : Nat) (hm : 0 < m) : 10 ^ (digits10 m - 1) ≤ m := by
  by_cases hd : digits10 m - 1 = 0
  · rw [hd]; exact hm
  · apply Nat.le_of_not_lt
    intro hlt
    have := (Nat.length_toDigits_le_iff (b := 10) (n := m) (by decide) (Nat.pos_of_ne_zero hd)).2 hlt
    simp only [digits10] at hd this
    omega

private theorem ten_zpow_split (e q : Int) (h : q ≤ e) : (10 : ℚ) ^ e = 10 ^ q * 10 ^ (e - q).toNat := by
  rw [← zpow_natCast, ← zpow_add₀ (by norm_num : (10 : ℚ) ≠ 0)]
  congr 1
  omega

/-- **`leScaled` decides `c·10^e ≤ m·10^q` exactly**, over the rationals. -/
theorem leScaled_iff (c m : Nat) (e q : Int) :
    leScaled c e m q = true ↔ (c : ℚ) * 10 ^ e ≤ (m : ℚ) * 10 ^ q := by
  have hpe : (0 : ℚ) < 10 ^ e := zpow_pos (by norm_num) e
  have hpq : (0 : ℚ) < 10 ^ q := zpow_pos (by norm_num) q
  unfold leScaled
  by_cases hc : c = 0
  · subst hc
    simp only [if_true, true_iff, Nat.cast_zero, zero_mul]
    positivity
  by_cases hm : m = 0
  · subst hm
    simp only [hc, if_false, if_true, Nat.cast_zero, zero_mul, Bool.false_eq_true, false_iff, not_le]
    have : (0 : ℚ) < c := by exact_mod_cast Nat.pos_of_ne_zero hc
    positivity
  have hc1 : (1 : ℚ) ≤ c := by exact_mod_cast Nat.pos_of_ne_zero hc
  have hm1 : (1 : ℚ) ≤ m := by exact_mod_cast Nat.pos_of_ne_zero hm
  by_cases he : e ≥ q
  · simp only [hc, hm, he, if_false, if_true]
    rw [ten_zpow_split e q he]
    have key : (c : ℚ) * (10 ^ q * 10 ^ (e - q).toNat) ≤ (m : ℚ) * 10 ^ q ↔ c * 10 ^ (e - q).toNat ≤ m := by
      rw [show (c : ℚ) * (10 ^ q * 10 ^ (e - q).toNat) = ((c * 10 ^ (e - q).toNat : Nat) : ℚ) * 10 ^ q by
        push_cast; ring]
      rw [mul_le_mul_iff_of_pos_right hpq]
      exact Nat.cast_le
    rw [key]
    by_cases hk : (e - q).toNat > digits10 m
    · simp only [hk, if_true, Bool.false_eq_true, false_iff, not_le]
      have h1 : m < 10 ^ digits10 m := lt_pow_digits10 m
      have h2 : 10 ^ digits10 m ≤ 10 ^ (e - q).toNat := Nat.pow_le_pow_right (by decide) (by omega)
      have h3 : 10 ^ (e - q).toNat ≤ c * 10 ^ (e - q).toNat := Nat.le_mul_of_pos_left _ (Nat.pos_of_ne_zero hc)
      omega
    · simp only [hk, if_false, decide_eq_true_eq]
  · have he' : e ≤ q := by omega
    simp only [hc, hm, he, if_false]
    rw [ten_zpow_split q e he']
    have key : (c : ℚ) * 10 ^ e ≤ (m : ℚ) * (10 ^ e * 10 ^ (q - e).toNat) ↔ c ≤ m * 10 ^ (q - e).toNat := by
      rw [show (m : ℚ) * (10 ^ e * 10 ^ (q - e).toNat) = ((m * 10 ^ (q - e).toNat : Nat) : ℚ) * 10 ^ e by
        push_cast; ring]
      rw [mul_le_mul_iff_of_pos_right hpe]
      exact Nat.cast_le
    rw [key]
    by_cases hk : (q - e).toNat > digits10 c
    · simp only [hk, if_true, true_iff]
      have h1 : c < 10 ^ digits10 c := lt_pow_digits10 c
      have h2 : 10 ^ digits10 c ≤ 10 ^ (q - e).toNat := Nat.pow_le_pow_right (by decide) (by omega)
      have h3 : 10 ^ (q - e).toNat ≤ m * 10 ^ (q - e).toNat := Nat.le_mul_of_pos_left _ (Nat.pos_of_ne_zero hm)
      omega
    · simp only [hk, if_false, decide_eq_true_eq]

/-! ## C18: every bit pattern of a fixed-width type prints as a value within the limits -/

/-- `c·10^e ≤ m·10^q` from `c ≤ m` and `e ≤ q` -/
theorem leScaled_mono (c m : Nat) (e q : Int) (hcm : c ≤ m) (heq : e ≤ q) : leScaled c e m q = true := by
  rw [leScaled_iff]
  have h1 : (c : ℚ) ≤ m := by exact_mod_cast hcm
  have h2 : (10 : ℚ) ^ e ≤ 10 ^ q := zpow_le_zpow_right₀ (by norm_num) heq
  have h3 : (0 : ℚ) ≤ 10 ^ e := by positivity
  have h4 : (0 : ℚ) ≤ m := by positivity
  exact mul_le_mul h1 h2 h3 h4

/-- **C18: the oracle's limits rule accepts the model's `Display` text of every bit pattern of a fixed-width type.** -/
theorem judgeWithinLimits_model (T : Ty) (w : Nat) (hT : T.fixedN = some w) (bytes : List Nat)
    (hlen : bytes.length = 4 * w) (hb : ∀ x ∈ bytes, x < 256) :
    judgeWithinLimits T (toText T (Buf.ofBytes bytes)) = [] := by
  have hw : 0 < w ∧ w ≤ 4 := by cases T <;> simp [Ty.fixedN] at hT <;> omega
  have hwf : WF (Buf.ofBytes bytes) w := WF.ofBytes bytes w hw.1 hlen hb
  obtain ⟨num, hparse, hdatum, _⟩ := C02.C02_format T _ w hwf (fun _ => by omega)
  unfold judgeWithinLimits
  rw [hT, hparse]
  cases num with
  | inf s => rfl
  | nan s g pl => rfl
  | finite s i fr ex =>
    rw [C03.datum_finite] at hdatum
    obtain ⟨hc, h1, h2⟩ := decode_fin_bounds w hw.1 _ s _ _ hdatum.symm
    simp only
    rw [chk_of _ _ _ (leScaled_mono _ _ _ _ (by omega) h2)]
    by_cases hc0 : ofDigits (i ++ fr) = 0
    · rw [hc0]; rfl
    · rw [chk_of]
      · rfl
      · rw [leScaled_mono 1 _ _ _ (by omega) h1]
        simp

/-! ## non-vacuity -/

/-- `1.5` answered "invalid character": a wrongful rejection -/
example : judgeGrammarReject [49, 46, 53] false (.err ⟨"char", 46, 0, 0⟩) ≠ [] := by decide
/-- … and "buffer too small" from the string entry point, which has no buffer -/
example : judgeGrammarReject [49, 46, 53] false (.err ⟨"buffer", 0, 0, 0⟩) ≠ [] := by decide
/-- the same answer is permitted to the streaming entry point; an overflow error to both -/
example : judgeGrammarReject [49, 46, 53] true (.err ⟨"buffer", 0, 0, 0⟩) = [] ∧
    judgeGrammarReject [49, 46, 53] false (.err ⟨"overflow", 4, 8, 0⟩) = [] := by decide

/-- `9999999e91` is above decimal32's MAX (`9999999e90`); `1e-102` is below its MIN_POSITIVE (`1e-101`) -/
example : judgeWithinLimits .b32 [57, 57, 57, 57, 57, 57, 57, 101, 57, 49] ≠ [] := by decide +kernel
example : judgeWithinLimits .b32 [49, 101, 45, 49, 48, 50] ≠ [] := by decide +kernel
/-- the limits themselves are accepted -/
example : judgeWithinLimits .b32 [57, 57, 57, 57, 57, 57, 57, 101, 57, 48] = [] ∧
    judgeWithinLimits .b32 [49, 101, 45, 49, 48, 49] = [] := by decide +kernel

/-- a complaint about the conversion of an infinity (decimal32 `78 00 00 00`, little-endian) is also a C08 complaint -/
example : judgeClassAgree [0, 0, 0, 0x78] (judgeToInt [0, 0, 0, 0x78] ⟨true, 32⟩ (.some 0)) ≠ [] := by decide +kernel

/-- instances of the theorems -/
example : judgeGrammarReject (List.replicate 45 55) false (pans (tryParseStr .dyn (List.replicate 45 55))) = [] :=
  judgeGrammarReject_model _ _
example : judgeGrammarReject [[45, 49], [46, 53], [101, 51]].flatten true
    (pans (tryParse .b32 [[45, 49], [46, 53], [101, 51]] .swallow)) = [] :=
  judgeGrammarReject_model_fmt _ _ _ (Or.inr rfl)
example : judgeWithinLimits .b64 (toText .b64 (Buf.ofBytes exBytes)) = [] :=
  judgeWithinLimits_model .b64 2 rfl exBytes (by decide) (by decide)

end Decstr.Props.Judged2
