import Decstr.Props.C06
import Decstr.Props.C11
/-!
# C10 — integer → decimal is exact and round-trips for every integer of every type

`fromInt T I v` is the model of `T::from_<int>(v)` / `From` / `TryFrom` (`decimal_from_int`): `itoa` text (modelled as
`Spec.toDecimal`, compared on every request), `FiniteParser::parse_str`, `decimal_from_parsed`; an error is `None` for
the fallible conversions and a panic (`expect`) for the ones offered as infallible.
-/
namespace Decstr.Props.C10
open Decstr.Model Decstr.Spec Decstr.Proofs

theorem starts (v : Int) : startsWithDigitOrMinusDigit (toDecimal v) = true := by
  rw [toDecimal_eq]
  obtain ⟨ha, hne, _⟩ := natDigits_spec v.natAbs
  cases hd : natDigits v.natAbs with
  | nil => exact absurd hd hne
  | cons d ds =>
    have h48 : isDigit d = true := by
      have := ha d (by rw [hd]; simp)
      simp [isDigit]; omega
    by_cases hv : v < 0 <;> simp [hv, startsWithDigitOrMinusDigit, h48]

/-- `fromInt` in terms of the string entry point -/
theorem fromInt_eq (T : Ty) (I : IntTy) (v : Int) :
    fromInt T I v = match tryParseStr T (toDecimal v) with
      | .ok b => .ok b
      | .error (.parse _) => .panic
      | .error (.overflow _) => if T.intInfallible I then .panic else .none := by
  unfold fromInt fromText tryParseStr
  rw [parseFiniteStr_eq_parseStr _ (starts v)]
  cases parseStr (toDecimal v) with
  | error e => rfl
  | ok p => cases h : fromParsed T p <;> simp [liftOverflow, h]

theorem digitVals_length (l : List Nat) : (digitVals l).length = l.length := by simp [digitVals]

/-- **C10 (exact).** For every integer `v`: the conversion yields the canonical encoding of (sign of `v`, `|v|`, exponent 0)
    — so it decodes to exactly `v` and prints exactly like the integer — in the type's width (fixed types) or the smallest
    sufficient width (dynamic types); it fails exactly when `v` has more decimal digits than the type's capacity holds, and
    then with `None` for the fallible conversions. -/
theorem C10_from (T : Ty) (I : IntTy) (v : Int) :
    let d := (natDigits v.natAbs).length
    match fromInt T I v with
    | .ok b => ∃ n, 0 < n ∧ b = ⟨4 * n, encodeFin ⟨n⟩ (decide (v < 0)) v.natAbs 0⟩ ∧ d ≤ (Fmt.mk n).p ∧
        (match T.fixedN with
         | some w => n = w
         | none => n = need d (some 0) ∨ (need d (some 0) > 5 ∧ need d (some 0) ≤ n ∧ n ≤ need d (some 0) + 1))
    | .none => T.intInfallible I = false ∧ ∃ cap, T.capN = some cap ∧ cap < need d (some 0)
    | .panic => T.intInfallible I = true ∧ ∃ cap, T.capN = some cap ∧ cap < need d (some 0) := by
  intro d
  have hp := parse_toDecimal v
  have hout := C06.C01_tryParseStr_finite T (toDecimal v) _ _ [] none hp
  obtain ⟨_, _, hval⟩ := natDigits_spec v.natAbs
  unfold C06.FiniteOutcome at hout
  have hx : (T.expIsI32 && !inI32 (expValue none)) = false := by simp [expValue, inI32]
  rw [hx] at hout
  simp only [Bool.false_eq_true, if_false, expValue, List.length_nil, Nat.cast_zero, Int.sub_zero, List.append_nil,
    Nat.add_zero, digitVals_length] at hout
  rw [fromInt_eq]
  cases hr : tryParseStr T (toDecimal v) with
  | ok b =>
    rw [hr] at hout
    obtain ⟨n, hn, hb, hfit, _, _, _, hw⟩ := hout
    have hc : ofDigits (digitVals (natDigits v.natAbs)) = v.natAbs := hval
    simp only
    refine ⟨n, hn, by rw [hb, hc], (by have h' := hfit; simp [Fmt.fitsB] at h'; exact h'.1), ?_⟩
    cases hf : T.fixedN with
    | some w => rw [hf] at hw; exact hw
    | none =>
      rw [hf] at hw
      obtain ⟨h1, h2, h3⟩ := hw
      by_cases h5 : need d (some 0) ≤ 5
      · exact Or.inl (h3 h5)
      · exact Or.inr ⟨by omega, h1, h2⟩
  | error e =>
    rw [hr] at hout
    cases e with
    | parse pe => exact hout.elim
    | overflow oe =>
      cases oe with
      | wouldOverflow mx rq =>
        obtain ⟨cap, n, hc, hlt, _⟩ := hout
        simp only
        by_cases hi : T.intInfallible I = true
        · rw [if_pos hi]; exact ⟨hi, cap, hc, hlt⟩
        · have hi' : T.intInfallible I = false := by simpa using hi
          rw [if_neg hi]; exact ⟨hi', cap, hc, hlt⟩
      | exponentOutOfRange m => exact hout.elim
      | sizeMismatch g r => exact hout.elim

/-- the number of decimal digits of a value of a `bits`-bit type -/
theorem digits_bound (I : IntTy) (hb1 : 0 < I.bits) (v : Int) (hv : I.contains v = true) (k : Nat) (hk : 0 < k) (hb : 2 ^ I.bits ≤ 10 ^ k) :
    (natDigits v.natAbs).length ≤ k := by
  rw [natDigits_length_le _ k hk]
  rw [contains_iff] at hv
  have hlt : (v.natAbs : Int) < (2 ^ I.bits : Nat) := by
    unfold IntTy.min IntTy.max at hv
    have h1 : (2 : Nat) ^ I.bits = 2 * 2 ^ (I.bits - 1) := by
      conv => lhs; rw [show I.bits = (I.bits - 1) + 1 by omega, Nat.pow_succ, Nat.mul_comm]
    have h2 : 0 < (2 : Nat) ^ (I.bits - 1) := Nat.two_pow_pos _
    by_cases hs : I.signed = true
    · rw [if_pos hs, if_pos hs] at hv; omega
    · rw [if_neg hs, if_neg hs] at hv; omega
  have : v.natAbs < 2 ^ I.bits := by exact_mod_cast hlt
  omega

/-- **C10 / C05 (the infallible `From` conversions are total).** For every pair the crate offers as infallible and every
    value of the integer type, the conversion succeeds (no panic in the `expect`). -/
theorem C10_infallible (T : Ty) (I : IntTy) (hI : I.bits = 8 ∨ I.bits = 16 ∨ I.bits = 32 ∨ I.bits = 64 ∨ I.bits = 128)
    (hinf : T.intInfallible I = true) (v : Int) (hv : I.contains v = true) : ∃ b, fromInt T I v = .ok b := by
  have h := C10_from T I v
  simp only at h
  cases hr : fromInt T I v with
  | ok b => exact ⟨b, rfl⟩
  | none => rw [hr] at h; rw [hinf] at h; exact absurd h.1 (by simp)
  | panic =>
    rw [hr] at h
    obtain ⟨_, cap, hc, hlt⟩ := h
    exfalso
    -- the digit count of `v` fits the capacity
    have key : ∀ k, 0 < k → 2 ^ I.bits ≤ 10 ^ k → k ≤ (Fmt.mk cap).p → 0 < cap → False := by
      intro k hk hb hp hcp
      have hd := digits_bound I (by rcases hI with h | h | h | h | h <;> omega) v hv k hk hb
      have hfit : (Fmt.mk cap).fitsB (natDigits v.natAbs).length (some 0) = true := by
        have hq : (Fmt.mk cap).qmin ≤ 0 ∧ (0 : Int) ≤ (Fmt.mk cap).qmax := by
          have h1 := C11.qmax_ge_90 cap hcp
          simp only [Fmt.qmin]; omega
        simp [Fmt.fitsB, hq.1, hq.2]; omega
      have := (need_le_iff _ _ cap hcp).2 hfit
      omega
    have hpow : ∀ k, (I.bits ≤ 16 → 5 ≤ k) → (I.bits ≤ 32 → 10 ≤ k) → (I.bits ≤ 64 → 20 ≤ k) → 39 ≤ k ∨ I.bits ≤ 64 →
        2 ^ I.bits ≤ 10 ^ 39 := by
      intro _ _ _ _ _
      rcases hI with h | h | h | h | h <;> rw [h] <;> decide
    cases T with
    | b32 =>
      simp only [Ty.capN] at hc; injection hc with hc; subst hc
      simp only [Ty.intInfallible, decide_eq_true_eq] at hinf
      exact key 5 (by decide) (by rcases hI with h | h | h | h | h <;> rw [h] <;> first | decide | omega) (by decide) (by decide)
    | b64 =>
      simp only [Ty.capN] at hc; injection hc with hc; subst hc
      simp only [Ty.intInfallible, decide_eq_true_eq] at hinf
      exact key 10 (by decide) (by rcases hI with h | h | h | h | h <;> rw [h] <;> first | decide | omega) (by decide) (by decide)
    | b128 =>
      simp only [Ty.capN] at hc; injection hc with hc; subst hc
      simp only [Ty.intInfallible, decide_eq_true_eq] at hinf
      exact key 20 (by decide) (by rcases hI with h | h | h | h | h <;> rw [h] <;> first | decide | omega) (by decide) (by decide)
    | dyn =>
      simp only [Ty.capN] at hc; injection hc with hc; subst hc
      exact key 39 (by decide) (by rcases hI with h | h | h | h | h <;> rw [h] <;> decide) (by decide) (by decide)
    | big => simp [Ty.capN] at hc

/-- **C10 (converting back).** Converting the result back to the same integer type returns the original value. -/
theorem C10_back (T : Ty) (I : IntTy) (hI : I.bits ≤ 128) (v : Int) (hv : I.contains v = true) (b : Buf)
    (hb : fromInt T I v = .ok b) : toInt T b I = some v := by
  have h := C10_from T I v
  simp only at h
  rw [hb] at h
  obtain ⟨n, hn, hbb, hd, hw⟩ := h
  have hc : v.natAbs < 10 ^ (Fmt.mk n).p := by
    have := (natDigits_length_le v.natAbs (Fmt.mk n).p (by simp only [Fmt.p]; omega)).1 hd
    exact this
  have hq : (Fmt.mk n).qmin ≤ 0 ∧ (0 : Int) ≤ (Fmt.mk n).qmax := by
    have h1 := C11.qmax_ge_90 n hn
    simp only [Fmt.qmin]; omega
  obtain ⟨hdec, hlt⟩ := decode_encodeFin n hn (decide (v < 0)) v.natAbs 0 hc hq
  have hwf : WF b n := ⟨hn, by rw [hbb], by rw [hbb]; exact hlt⟩
  -- widths of at most 2^27 words: the result of `from_<int>` has at most 160 + 32 bits
  have hn27 : n < 2 ^ 27 := by
    have : (natDigits v.natAbs).length ≤ 39 := by
      rw [natDigits_length_le _ 39 (by decide)]
      rw [contains_iff] at hv
      have h2 : (2 : Nat) ^ I.bits ≤ 2 ^ 128 := Nat.pow_le_pow_right (by decide) hI
      have h3 : (2 : Nat) ^ (I.bits - 1) ≤ 2 ^ 128 := Nat.pow_le_pow_right (by decide) (by omega)
      have h4 : (2 : Nat) ^ 128 < 10 ^ 39 := by decide
      have : (v.natAbs : Int) < (10 ^ 39 : Nat) := by
        unfold IntTy.min IntTy.max at hv
        by_cases hs : I.signed = true
        · rw [if_pos hs, if_pos hs] at hv; omega
        · rw [if_neg hs, if_neg hs] at hv; omega
      exact_mod_cast this
    have hneed : need (natDigits v.natAbs).length (some 0) ≤ 5 := by
      rw [need_le_iff _ _ 5 (by decide)]
      have : (Fmt.mk 5).p = 43 ∧ (Fmt.mk 5).qmin ≤ 0 ∧ (0 : Int) ≤ (Fmt.mk 5).qmax := by decide
      simp [Fmt.fitsB, this.2.1, this.2.2, this.1]; omega
    cases hf : T.fixedN with
    | some w =>
      rw [hf] at hw; subst hw
      cases T <;> simp [Ty.fixedN] at hf <;> omega
    | none =>
      rw [hf] at hw
      rcases hw with h | ⟨h, _, _⟩ <;> omega
  apply C11.C11_complete T b n hwf hn27 I hI (decide (v < 0)) v.natAbs 0 (by rw [hbb]; exact hdec) v
  · simp only [IsValue, Int.le_refl, if_true, Int.toNat_zero, Nat.pow_zero, Nat.mul_one, sgnVal]
    by_cases h0 : v < 0
    · simp only [h0, decide_true, if_true]; omega
    · simp only [h0, decide_false, Bool.false_eq_true, if_false]; omega
  · exact hv
  · rintro ⟨h1, h2⟩
    simp only [decide_eq_true_eq] at h1
    rw [contains_iff] at hv
    unfold IntTy.min at hv
    rw [if_neg (by simp [h2])] at hv
    omega

end Decstr.Props.C10
