import Decstr.Proofs.Parser
import Decstr.Proofs.ToInt
import Decstr.Props.C01
import Decstr.Props.C09
/-!
# C06 (parser) and the top-level statements of C01 / C04 / C09 / C17 for `try_parse_str`

`tryParseStr T txt` is the model of `T::try_parse_str` (= `FromStr` = `TryFrom<&str>`): `DecimalParser::parse_str`
followed by `decimal_from_parsed`.  Everything here holds for every byte list `txt`, every type and every width.
-/
namespace Decstr.Props.C06
open Decstr.Model Decstr.Spec Decstr.Proofs

/-- **C06 (accepts exactly the grammar).** The parser accepts a byte string iff the reference recogniser of the
    specification does (`Proofs.parse_iff_matches` relates that recogniser to the declarative grammar). -/
theorem C06_accepts_iff (txt : List Nat) : (∃ p, parseStr txt = .ok p) ↔ (Spec.parse txt).isSome :=
  parseStr_ok_iff txt

/-- **C06 (never mis-tokenised).** Every byte of an accepted string lands in the field the grammar assigns it: the
    recorded ranges, sliced out of the input, are exactly the grammar's integer / fraction / exponent / payload digits. -/
theorem C06_numeral (txt : List Nat) (p : Parsed) (h : parseStr txt = .ok p) : Spec.parse txt = some (numeralOf p) :=
  parseStr_numeral txt p h

/-- **C06 / C17 (rejections).** A rejected string gives a syntax error and nothing else: the first byte after which no
    grammatical completion exists, or unexpected end when the text is a proper prefix of a numeral. -/
theorem C06_reject (txt : List Nat) (hn : Spec.parse txt = none) :
    (∃ i c, firstBad txt = some i ∧ txt[i]? = some c ∧ parseStr txt = .error (.char c)) ∨
    (firstBad txt = none ∧ parseStr txt = .error .endOfInput) := by
  cases hp : parseStr txt with
  | ok p => rw [parseStr_numeral txt p hp] at hn; cases hn
  | error e =>
    rcases parseStr_error_kind txt e hp with ⟨c, rfl⟩ | rfl
    · obtain ⟨i, hi, hc⟩ := (parseStr_err_char txt c).1 hp
      exact Or.inl ⟨i, c, hi, hc, rfl⟩
    · exact Or.inr ⟨((parseStr_err_end txt).1 hp).1, rfl⟩

/-- **C06 (rejected strings never produce a value), at the API.** -/
theorem C06_tryParseStr_reject (T : Ty) (txt : List Nat) (hn : Spec.parse txt = none) :
    ∃ e, tryParseStr T txt = .error (.parse e) ∧ ((∃ c, e = .char c) ∨ e = .endOfInput) := by
  rcases C06_reject txt hn with ⟨i, c, _, _, h⟩ | ⟨_, h⟩
  · exact ⟨_, by simp [tryParseStr, h], Or.inl ⟨c, rfl⟩⟩
  · exact ⟨_, by simp [tryParseStr, h], Or.inr rfl⟩

/-! ## exponent text -/

theorem i32_cond (m : Int) : (decide (m < i32Min) || decide (m > i32Max)) = !(IntTy.contains ⟨true, 32⟩ m) := by
  have hmin : IntTy.min ⟨true, 32⟩ = i32Min := by decide
  have hmax : IntTy.max ⟨true, 32⟩ = i32Max := by decide
  have e1 : IntTy.contains ⟨true, 32⟩ m = (decide (i32Min ≤ m) && decide (m ≤ i32Max)) := by
    simp only [IntTy.contains, hmin, hmax]
  rw [e1]
  by_cases h1 : m < i32Min
  · have : ¬ (i32Min ≤ m) := by omega
    simp [h1, this]
  · have h1' : i32Min ≤ m := by omega
    by_cases h2 : m > i32Max
    · have : ¬ (m ≤ i32Max) := by omega
      simp [h2, this]
    · have : m ≤ i32Max := by omega
      simp [h1, h2, h1', this]

theorem i32FromAscii_eq_int (neg : Bool) (ds : List Nat) (acc : Int) :
    i32FromAscii neg ds acc = intFromAscii ⟨true, 32⟩ neg ds acc := by
  induction ds generalizing acc with
  | nil => rfl
  | cons d ds ih =>
    simp only [i32FromAscii, intFromAscii, i32_cond, ih, Bool.not_true, Bool.and_false, Bool.false_eq_true, if_false]

theorem sgnVal_expValue (neg : Bool) (ds : List Nat) : sgnVal neg (valOf ds) = expValue (some (neg, digitVals ds)) := by
  simp [sgnVal, expValue, valOf]

theorem contains_i32 (x : Int) : IntTy.contains ⟨true, 32⟩ x = inI32 x := by
  simp [IntTy.contains, IntTy.min, IntTy.max, inI32]

/-- `try_exponent_from_ascii`: the exact value of the exponent text, or (bounded types) an exponent overflow when it
    does not fit an `i32` -/
theorem exponentFromAscii_spec (T : Ty) (neg : Bool) (ds : List Nat) :
    T.exponentFromAscii neg ds =
      if T.expIsI32 && !inI32 (expValue (some (neg, digitVals ds))) then .error (.exponentOutOfRange 4)
      else .ok (expValue (some (neg, digitVals ds))) := by
  unfold Ty.exponentFromAscii
  by_cases hi : T.expIsI32 = true
  · simp only [hi, if_true, Bool.true_and]
    rw [i32FromAscii_eq_int, intFromAscii_eq _ _ _ (by simp), contains_i32, sgnVal_expValue]
    cases inI32 (expValue (some (neg, digitVals ds))) <;> simp
  · have hi' : T.expIsI32 = false := by simpa using hi
    simp only [hi', Bool.false_and, Bool.false_eq_true, if_false]
    simp [bigFromAscii, expValue, digitVals]

/-! ## the answer to a finite numeral -/

/-- what the properties say about the answer to a grammatical finite numeral with written sign `s`, coefficient `c`
    (the `d` written digits read as an integer), written exponent `x` and integer-coefficient exponent `q` -/
def FiniteOutcome (T : Ty) (s : Bool) (c d : Nat) (x q : Int) (r : Except Err Buf) : Prop :=
  if T.expIsI32 && !inI32 x then
    -- C17: an exponent text beyond the 32-bit range is an exponent overflow without a width
    r = .error (.overflow (.exponentOutOfRange 4))
  else match r with
    | .ok b => ∃ n, 0 < n ∧ b = ⟨4 * n, encodeFin ⟨n⟩ s c q⟩ ∧ (Fmt.mk n).fitsB d (some q) = true ∧ b.bits < 2 ^ (32 * n) ∧
        c < 10 ^ (Fmt.mk n).p ∧ (∀ cap, T.capN = some cap → n ≤ cap) ∧
        (match T.fixedN with
         | some w => n = w
         | none => need d (some q) ≤ n ∧ n ≤ need d (some q) + 1 ∧ (need d (some q) ≤ 5 → n = need d (some q)))
    | .error (.overflow (.wouldOverflow mx rq)) => ∃ cap n, T.capN = some cap ∧ cap < need d (some q) ∧
        mx = 4 * cap ∧ rq = 4 * n ∧ cap < n ∧ (Fmt.mk n).fitsB d (some q) = true
    | .error _ => False

theorem digitVals_append (a b : List Nat) : digitVals (a ++ b) = digitVals a ++ digitVals b := by
  simp [digitVals]

/-- the encoder's outcome in the shape of `FiniteOutcome` -/
theorem outcome_of_encode (T : Ty) (neg : Bool) (ds : List Nat) (hds : AsciiDigits ds) (hne : ds ≠ []) (x q : Int)
    (hx : (T.expIsI32 && !inI32 x) = false)
    (hq : T.expIsI32 = true → i32Min - ds.length ≤ q ∧ q ≤ i32Max + ds.length) :
    FiniteOutcome T neg (valOf ds) ds.length x q (liftOverflow (encodeFinite T neg ds (C01.passed T q))) := by
  have h := C01.C01_encodeFinite T neg ds hds hne q hq
  unfold FiniteOutcome
  rw [hx]
  simp only [Bool.false_eq_true, if_false]
  cases hr : encodeFinite T neg ds (C01.passed T q) with
  | ok b => rw [hr] at h; simp only [liftOverflow]; exact h
  | error e =>
    rw [hr] at h
    obtain ⟨cap, n, hc, hlt, he, hcn, hf⟩ := h
    subst he
    simp only [liftOverflow]
    exact ⟨cap, n, hc, hlt, rfl, rfl, hcn, hf⟩

theorem passed_of_i32 (T : Ty) (x : Int) (h : T.expIsI32 = true → i32Min ≤ x ∧ x ≤ i32Max) : C01.passed T x = x := by
  unfold C01.passed
  by_cases hi : T.expIsI32 = true
  · have := h hi
    simp only [hi, if_true, satI32]
    rw [if_neg (by omega), if_neg (by omega)]
  · simp [hi]

theorem i32_of_cond (T : Ty) (x : Int) (hx : (T.expIsI32 && !inI32 x) = false) :
    T.expIsI32 = true → i32Min ≤ x ∧ x ≤ i32Max := by
  intro hi
  simp only [hi, Bool.true_and, Bool.not_eq_false', inI32, Bool.and_eq_true, decide_eq_true_eq] at hx
  simp only [i32Min, i32Max]; exact hx

/-- integer numeral: no decimal point -/
theorem tail_none (T : Ty) (neg : Bool) (ds : List Nat) (hd : AsciiDigits ds) (hne : ds ≠ []) (x : Int)
    (hx : (T.expIsI32 && !inI32 x) = false) :
    FiniteOutcome T neg (ofDigits (digitVals ds ++ [])) ((digitVals ds).length + ([] : List Nat).length) x
      (x - (([] : List Nat).length : Nat)) (liftOverflow (encodeFinite T neg ds x)) := by
  have hi32 := i32_of_cond T x hx
  have := outcome_of_encode T neg ds hd hne x x hx (by intro hi; have := hi32 hi; omega)
  rw [passed_of_i32 T x hi32] at this
  simpa [digitVals, valOf] using this

/-- numeral with a decimal point: the exponent is lowered by the number of fractional digits -/
theorem tail_some (T : Ty) (neg : Bool) (di df : List Nat) (hdi : AsciiDigits di) (hnei : di ≠ []) (hdf : AsciiDigits df)
    (x : Int) (hx : (T.expIsI32 && !inI32 x) = false) :
    FiniteOutcome T neg (ofDigits (digitVals di ++ digitVals df)) ((digitVals di).length + (digitVals df).length) x
      (x - ((digitVals df).length : Nat)) (liftOverflow (encodeFinite T neg (di ++ df) (T.lower x df.length))) := by
  have hi32 := i32_of_cond T x hx
  have hds : AsciiDigits (di ++ df) := asciiDigits_append.2 ⟨hdi, hdf⟩
  have hne : di ++ df ≠ [] := by simp [hnei]
  have := outcome_of_encode T neg _ hds hne x (x - (df.length : Nat)) hx
    (by intro hi; have := hi32 hi; simp only [List.length_append]; omega)
  have hlow : T.lower x df.length = C01.passed T (x - (df.length : Nat)) := by simp [Ty.lower, C01.passed]
  rw [hlow]
  simpa [digitVals, valOf, List.length_append] using this

/-- **C01 / C04 / C07 / C17 at the API (finite numerals).** For every type and every grammatical finite numeral —
    any digit count, any exponent text, any spelling — `try_parse_str` answers as `FiniteOutcome` says: the exact IEEE
    encoding of (written sign, written digits as an integer, written exponent − fractional digits) at a width with the
    C07 guarantees, or a truthful error.  Two spellings with the same sign, digits-as-written and `q` therefore give
    identical bytes. -/
theorem C01_tryParseStr_finite (T : Ty) (txt : List Nat) (s : Bool) (i fr : List Nat) (ex : Option (Bool × List Nat))
    (h : Spec.parse txt = some (.finite s i fr ex)) :
    FiniteOutcome T s (ofDigits (i ++ fr)) (i.length + fr.length) (expValue ex) (expValue ex - fr.length) (tryParseStr T txt) := by
  obtain ⟨p, hp⟩ := (parseStr_ok_iff txt).2 (by rw [h]; rfl)
  have hnum := parseStr_numeral txt p hp
  have hok := parseStr_fields_ascii txt p hp
  rw [h] at hnum
  injection hnum with hnum
  unfold tryParseStr
  rw [hp]
  cases p with
  | infinity neg => simp [numeralOf] at hnum
  | nan n => simp [numeralOf] at hnum
  | finite f =>
    obtain ⟨tb, ⟨sneg, srange, spoint⟩, exo⟩ := f
    simp only [FieldsOK, TextBuf.ascii] at hok
    obtain ⟨htxt, hsig, hexp⟩ := hok
    subst htxt
    simp only [numeralOf, numeralOfFinite, TextBuf.ascii] at hnum
    -- the exponent: evaluate `try_exponent_from_ascii`
    have hE : ∀ (k : Int → Except OverflowErr Buf) (r : Except OverflowErr Buf),
        (∀ x, (T.expIsI32 && !inI32 x) = false → x = expValue ex → FiniteOutcome T s (ofDigits (i ++ fr)) (i.length + fr.length) x (x - fr.length) (liftOverflow (k x))) →
        ((T.expIsI32 && !inI32 (expValue ex)) = true → r = .error (.exponentOutOfRange 4)) →
        ((T.expIsI32 && !inI32 (expValue ex)) = false → r = k (expValue ex)) →
        FiniteOutcome T s (ofDigits (i ++ fr)) (i.length + fr.length) (expValue ex) (expValue ex - fr.length) (liftOverflow r) := by
      intro k r hk h1 h2
      by_cases hx : (T.expIsI32 && !inI32 (expValue ex)) = true
      · rw [h1 hx]; simp only [FiniteOutcome, hx, if_true, liftOverflow]
      · have hx' : (T.expIsI32 && !inI32 (expValue ex)) = false := by simpa using hx
        rw [h2 hx']; exact hk _ hx' rfl
    cases spoint with
    | none =>
      simp only at hnum hsig
      injection hnum with h1 h2 h3 h4
      obtain ⟨hd, hne⟩ := hsig
      subst h1 h2 h3
      cases exo with
      | none =>
        subst h4
        simp only [fromParsed, TextBuf.ascii, Option.map]
        exact tail_none T s _ hd hne 0 (by simp [inI32])
      | some e =>
        subst h4
        simp only [Option.map] at hE
        simp only [fromParsed, TextBuf.ascii, Option.map]
        rw [exponentFromAscii_spec]
        refine hE (fun x => encodeFinite T s (slice tb.text srange) x) _ ?_ ?_ ?_
        · intro x hx _; exact tail_none T s _ hd hne x hx
        · intro hx; simp only [hx, if_true]
        · intro hx; simp only [hx, Bool.false_eq_true, if_false]
    | some pt =>
      simp only at hnum hsig
      injection hnum with h1 h2 h3 h4
      obtain ⟨hdi, hnei, hdf, hnef⟩ := hsig
      subst h1 h2 h3
      cases exo with
      | none =>
        subst h4
        simp only [fromParsed, TextBuf.ascii, Option.map]
        exact tail_some T s _ _ hdi hnei hdf 0 (by simp [inI32])
      | some e =>
        subst h4
        simp only [Option.map] at hE
        simp only [fromParsed, TextBuf.ascii, Option.map]
        rw [exponentFromAscii_spec]
        refine hE (fun x => encodeFinite T s (slice tb.text ⟨srange.start, pt.start⟩ ++ slice tb.text ⟨pt.stop, srange.stop⟩)
            (T.lower x (slice tb.text ⟨pt.stop, srange.stop⟩).length)) _ ?_ ?_ ?_
        · intro x hx _; exact tail_some T s _ _ hdi hnei hdf x hx
        · intro hx; simp only [hx, if_true]
        · intro hx; simp only [hx, Bool.false_eq_true, if_false]

/-! ## the answer to a special-value numeral (C09 at the API) -/

/-- **C09 (infinity) at the API.** Every spelling of infinity — both signs, `inf`/`infinity`, any letter case — gives the
    canonical pattern at the type's width (32 bits for the dynamic types). -/
theorem C09_tryParseStr_inf (T : Ty) (txt : List Nat) (s : Bool) (h : Spec.parse txt = some (.inf s)) :
    tryParseStr T txt = .ok ⟨4 * C09.baseN T, encodeInf ⟨C09.baseN T⟩ s⟩ := by
  obtain ⟨p, hp⟩ := (parseStr_ok_iff txt).2 (by rw [h]; rfl)
  have hnum := parseStr_numeral txt p hp
  rw [h] at hnum
  injection hnum with hnum
  unfold tryParseStr
  rw [hp]
  cases p with
  | finite f => simp only [numeralOf, numeralOfFinite] at hnum; split at hnum <;> cases hnum
  | nan n => simp [numeralOf] at hnum
  | infinity neg =>
    simp only [numeralOf] at hnum
    injection hnum with hnum; subst hnum
    show liftOverflow (fromParsed T (.infinity s)) = _
    rw [C09.C09_inf]; rfl

theorem encodeSignificand_nil (b : Buf) : encodeSignificand b [] = (b, 0) := by
  unfold encodeSignificand
  cases b.trailingDigits / 3 <;> simp [encodeDeclets]

/-- what the properties say about the answer to a NaN numeral with sign `s`, kind `g` and payload digits `ds`
    (`[]` when there are no brackets or nothing between them) -/
def NanOutcome (T : Ty) (s g : Bool) (ds : List Nat) (r : Except Err Buf) : Prop :=
  match r with
  | .ok b => ∃ n, 0 < n ∧ b = ⟨4 * n, Spec.encodeNan ⟨n⟩ s g (ofDigits ds)⟩ ∧
      ofDigits ds < 1000 ^ (Fmt.mk n).declets ∧
      (ds = [] → n = C09.baseN T) ∧
      (ds ≠ [] → ds.length + 1 ≤ (Fmt.mk n).p ∧
        (match T.fixedN with
         | some w => n = w
         | none => need (ds.length + 1) none ≤ n ∧ n ≤ need (ds.length + 1) none + 1 ∧
                   (need (ds.length + 1) none ≤ 5 → n = need (ds.length + 1) none)))
  | .error (.overflow (.wouldOverflow mx rq)) => ds ≠ [] ∧ ∃ cap n, T.capN = some cap ∧ cap < need (ds.length + 1) none ∧
      mx = 4 * cap ∧ rq = 4 * n ∧ cap < n ∧ (Fmt.mk n).fitsB (ds.length + 1) none = true
  | .error _ => False

/-- **C09 (NaN) at the API.** Every spelling of a NaN: the canonical pattern with the written sign and kind, the payload
    digits stored as an integer (an absent, empty or zero payload is payload 0), 32 bits / the type's width unless the
    payload needs more, a truthful overflow error when a bounded type cannot hold the payload. -/
theorem C09_tryParseStr_nan (T : Ty) (txt : List Nat) (s g : Bool) (pl : Option (List Nat))
    (h : Spec.parse txt = some (.nan s g pl)) : NanOutcome T s g (pl.getD []) (tryParseStr T txt) := by
  obtain ⟨p, hp⟩ := (parseStr_ok_iff txt).2 (by rw [h]; rfl)
  have hnum := parseStr_numeral txt p hp
  have hok := parseStr_fields_ascii txt p hp
  rw [h] at hnum
  injection hnum with hnum
  unfold tryParseStr
  rw [hp]
  cases p with
  | finite f => simp only [numeralOf, numeralOfFinite] at hnum; split at hnum <;> cases hnum
  | infinity neg => simp [numeralOf] at hnum
  | nan n =>
    obtain ⟨tb, sig, neg, payload⟩ := n
    simp only [numeralOf, TextBuf.ascii] at hnum
    injection hnum with h1 h2 h3
    subst h1 h2 h3
    simp only [FieldsOK, TextBuf.ascii] at hok
    obtain ⟨htxt, hpl⟩ := hok
    subst htxt
    have hbase := C09.baseN_pos T
    -- no payload, or an empty one
    have hnone : payload.filter (fun s => decide (s.range.stop > s.range.start)) = none →
        (Option.map (fun s => digitVals (slice tb.text s.range)) payload).getD [] = [] →
        NanOutcome T s g [] (liftOverflow (fromParsed T (.nan ⟨tb, g, s, payload⟩))) := by
      intro hf _
      rw [C09.C09_nan_none T tb g s payload hf]
      exact ⟨C09.baseN T, hbase, by simp [liftOverflow, ofDigits], by simp [ofDigits], fun _ => rfl, fun h => absurd rfl h⟩
    cases payload with
    | none => exact hnone rfl rfl
    | some ps =>
      have hd := hpl ps rfl
      simp only [Option.map, Option.getD]
      by_cases hr : ps.range.stop > ps.range.start
      · by_cases hne : slice tb.text ps.range = []
        · -- (cannot happen for a parser-produced range, but harmless: it encodes as payload 0)
          rw [show digitVals (slice tb.text ps.range) = [] by rw [hne]; rfl]
          have hf : (some ps).filter (fun s => decide (s.range.stop > s.range.start)) = some ps := by
            simp [Option.filter, hr]
          simp only [fromParsed, hf, TextBuf.ascii, hne, List.length_nil, Nat.zero_add, encodeSignificand_nil]
          have hw : T.withPrecision 1 none = .ok (Buf.zero (4 * C09.baseN T)) := by cases T <;> rfl
          rw [hw]
          simp only [liftOverflow]
          exact ⟨C09.baseN T, hbase, by rw [encodeNan_nopayload _ hbase]; simp [ofDigits], by simp [ofDigits], fun _ => rfl, fun h => absurd rfl h⟩
        · have hspec := C09.C09_nan_payload T tb g s ps hr hd hne
          simp only [TextBuf.ascii] at hspec
          have hl : (digitVals (slice tb.text ps.range)).length = (slice tb.text ps.range).length := by simp [digitVals]
          have hne' : digitVals (slice tb.text ps.range) ≠ [] := by
            intro h0; apply hne; have := congrArg List.length h0; rw [hl] at this; exact List.length_eq_zero_iff.1 this
          cases hres : fromParsed T (.nan ⟨tb, g, s, some ps⟩) with
          | ok b =>
            rw [hres] at hspec
            obtain ⟨n, hn, hb, hp', hw⟩ := hspec
            simp only [liftOverflow, NanOutcome]
            refine ⟨n, hn, ?_, ?_, fun h0 => absurd h0 hne', fun _ => ?_⟩
            · rw [hb]; rfl
            · have h1 : valOf (slice tb.text ps.range) < 10 ^ (slice tb.text ps.range).length := valOf_lt hd
              have h2 : (slice tb.text ps.range).length ≤ 3 * (Fmt.mk n).declets := by
                simp only [Fmt.p, Fmt.declets] at hp' ⊢; omega
              rw [pow1000]
              exact Nat.lt_of_lt_of_le h1 (Nat.pow_le_pow_right (by decide) h2)
            · rw [hl]; exact ⟨hp', hw⟩
          | error e =>
            rw [hres] at hspec
            obtain ⟨cap, n, hc, hlt, he, hcn, hf⟩ := hspec
            subst he
            simp only [liftOverflow, NanOutcome]
            rw [hl]
            exact ⟨hne', cap, n, hc, hlt, rfl, rfl, hcn, hf⟩
      · have hf : (some ps).filter (fun s => decide (s.range.stop > s.range.start)) = none := by
          simp [Option.filter, hr]
        have he : slice tb.text ps.range = [] := by
          simp only [slice]; rw [show ps.range.stop - ps.range.start = 0 by omega]; simp
        rw [show digitVals (slice tb.text ps.range) = [] by rw [he]; rfl]
        exact hnone hf (by simp [he, digitVals])

end Decstr.Props.C06
