import Decstr.Proofs.JudgeLemmas
import Decstr.Proofs.JudgeParse
import Decstr.Proofs.JudgeText
import Decstr.Proofs.JudgeStable
import Decstr.Proofs.Parser
import Decstr.Props.C06
import Decstr.Props.C02
import Decstr.Props.C03
import Decstr.Props.C08
import Decstr.Props.C10
import Decstr.Props.C11
import Decstr.Props.C12
import Decstr.Props.C13
import Decstr.Props.C14
import Decstr.Props.C16
import Decstr.Props.C18
/-!
# Judged — the run-time oracle accepts every answer of the model

Two things judge answers in this project: the executable judgements of `Decstr/Spec/Judge.lean` (run on the
implementation's answers by the check) and the theorems of `Decstr/Props/*.lean` (about the model's answers).  This
file closes the loop: for every request of the line protocol, the judgement applied to the answer the model gives
(`Model.Api.answerWith`, rendered through `pans` / `oans` / `resPAns` / `errFacts`) returns no complaint — the oracle
demands nothing the theorems do not give.  Each theorem is stated on the values `Driver.judge` passes to the judgement,
before they are printed as protocol tokens.

| request      | judgement        | theorem                                                                      |
|--------------|------------------|------------------------------------------------------------------------------|
| `parse_str`  | `judgeParse`     | `judgeParse_model` (+ `judgeReprint_model` for the printed text)            |
| `parse_fmt`  | `judgeParseFmt`  | `judgeParseFmt_model`, `judgeParseFmt_model_fail`                            |
| `format`     | `judgeFormat`    | `judgeFormat_model`                                                          |
| `roundtrip`  | `judgeRoundtrip` | `judgeRoundtrip_model` (all but BigBitstring > 160 bits), `…_partial`        |
| `classify`   | `judgeClassify`  | `judgeClassify_model`                                                        |
| `to_int`     | `judgeToInt`     | `judgeToInt_model` (bounded types), `judgeToInt_model_partial`               |
| `from_int`   | `judgeFromInt`   | `judgeFromInt_model`                                                         |
| `to_float`   | `judgeToFloat`   | `judgeToFloat_model`                                                         |
| `bytes`      | `judgeBytesApi`  | `judgeBytesApi_model`                                                        |
| `try_le`     | `judgeTryLe`     | `judgeTryLe_model`                                                           |
| `consts`     | `judgeConsts`    | `judgeConsts_model`                                                          |

| `from_float` | `judgeFromFloat` | `judgeFromFloat_model` (finite floats: under the float formatter's contract) |
Helper lemmas: `Decstr/Proofs/JudgeLemmas.lean`, `JudgeParse.lean`, `JudgeText.lean`, `JudgeStable.lean`.
-/
namespace Decstr.Props.Judged
open Decstr.Model Decstr.Spec Decstr.Proofs Decstr.Proofs.Judge

/-! ## the string entry point (C01, C04, C06, C07, C09, C17) -/

/-- **C01 / C04 / C06 / C07 / C09 / C17: the oracle accepts the model's answer to every `parse_str` request.** -/
theorem judgeParse_model (T : Ty) (txt : List Nat) : judgeParse T txt (pans (tryParseStr T txt)) = [] := by
  cases hp : parse txt with
  | none => exact judge_reject T txt hp
  | some num =>
    cases num with
    | finite s i fr ex =>
      exact judge_finite T txt s i fr ex hp _ (C06.C01_tryParseStr_finite T txt s i fr ex hp)
    | inf s =>
      rw [C06.C09_tryParseStr_inf T txt s hp]
      exact judge_inf T txt s hp
    | nan s g pl =>
      exact judge_nan T txt s g pl hp _ (fun b hb => tryParseStr_nan_len T txt s g pl hp b hb)
        (C06.C09_tryParseStr_nan T txt s g pl hp)

/-- **C03 (text → bits → text): the oracle accepts the text the model prints for a parsed numeral.** -/
theorem judgeReprint_model (T : Ty) (txt : List Nat) (b : Buf) (h : tryParseStr T txt = .ok b) :
    judgeReprint txt (toText T b) = [] := by
  cases hp : parse txt with
  | none => simp only [judgeReprint, hp]
  | some num =>
    obtain ⟨n, hwf, hT, hd⟩ := tryParseStr_decode T txt num hp b h
    obtain ⟨num', hp', hd', _⟩ := C02.C02_format T b n hwf hT
    simp only [judgeReprint, hp, hp']
    rw [hd', hd, Datum.same_self]; rfl

/-! ## formatting (C02) -/

/-- **C02: the oracle accepts the model's `Display` text of every held bit pattern.** -/
theorem judgeFormat_model (T : Ty) (bytes : List Nat) (h : T.holds bytes.length = true) (hb : ∀ x ∈ bytes, x < 256) :
    judgeFormat bytes (some (toText T (Buf.ofBytes bytes))) = [] := by
  obtain ⟨n, hwf, hl, hl4, hw, hc⟩ := WF.ofHolds T bytes h hb
  obtain ⟨num, hparse, hdatum, hlay, _⟩ := C02.C02_format T _ n hwf (holds_expIsI32 T n hc)
  have hbits : (Buf.ofBytes bytes).bits = ofLeBytes bytes := rfl
  rw [hbits] at hdatum
  simp only [judgeFormat, hparse, hl4, hdatum, Datum.same_self, hlay]
  rfl

/-! ## classification (C08) -/

/-- **C08: the oracle accepts the model's classification and printed category of every held bit pattern.** -/
theorem judgeClassify_model (T : Ty) (bytes : List Nat) (h : T.holds bytes.length = true) (hb : ∀ x ∈ bytes, x < 256) :
    let b := Buf.ofBytes bytes
    judgeClassify bytes ⟨isSignNegative b, isFinite b, isInfinite b, isNan b, isQuietNan b, isSignalingNan b⟩
      (firstTok (toText T b)).1 (firstTok (toText T b)).2 = [] := by
  intro b
  obtain ⟨n, hwf, hl, hl4, hw, hc⟩ := WF.ofHolds T bytes h hb
  have hcls : C08.modelCls b = C08.clsOfDatum (decode ⟨n⟩ b.bits) := C08.C08_ieee b n (DecodeAux.toC08 hwf)
  have hbits : b.bits = ofLeBytes bytes := rfl
  obtain ⟨d, hd, h1, h2⟩ := firstTok_toText T b n hwf (holds_expIsI32 T n hc)
  show judgeClassify bytes (C08.modelCls b) _ _ = []
  rw [hcls, hd]
  exact judgeClassify_datum bytes d (by rw [hl4, ← hbits, hd]) _ _ h1 h2

/-! ## decimal → integer (C11) -/

/-- **C11 (targets of at most 128 bits; byte strings shorter than 2^29 bytes).**
    FULL statement asked for: the same without `hlen`.  For the four bounded types `hlen` follows from `T.holds`
    (see `judgeToInt_model`); for `BigBitstring` buffers of 2^29 bytes or more see NOTES.md. -/
theorem judgeToInt_model_partial (T : Ty) (bytes : List Nat) (h : T.holds bytes.length = true) (hb : ∀ x ∈ bytes, x < 256)
    (I : IntTy) (hI : I.bits ≤ 128) (hlen : bytes.length < 2 ^ 29) :
    judgeToInt bytes I (oans (toInt T (Buf.ofBytes bytes) I)) = [] := by
  obtain ⟨n, hwf, hl, hl4, hw, hc⟩ := WF.ofHolds T bytes h hb
  have hn : n < 2 ^ 27 := by omega
  have hbits : (Buf.ofBytes bytes).bits = ofLeBytes bytes := rfl
  by_cases hfin : isFinite (Buf.ofBytes bytes) = true
  · obtain ⟨s, c, e, hd, heq⟩ := C11.C11_eq T _ n hwf hn I hI hfin
    rw [hbits] at hd
    rw [heq, ← intValue_exact I hI s c e]
    cases hiv : intValue s c e with
    | none =>
      simp only [judgeToInt, oans, hl4, hd, hiv]
      rfl
    | some v =>
      by_cases hcont : I.contains v = true
      · by_cases hsn : s = true ∧ I.signed = false
        · have hc0 : c = 0 := by
            apply Classical.byContradiction
            intro hc0
            obtain ⟨hs, hsg⟩ := hsn
            subst hs
            have := intValue_neg c e v hc0 hiv
            rw [contains_iff] at hcont
            simp only [IntTy.min, hsg, Bool.false_eq_true, if_false] at hcont
            omega
          obtain ⟨hs, hsg⟩ := hsn
          subst hs hc0
          simp only [judgeToInt, oans, hl4, hd, hiv, hcont, hsg]
          simp [chk]
        · have hcond : (!I.signed && s && decide (c = 0)) = false := by
            cases hs : s <;> cases hg : I.signed <;> simp_all
          simp only [judgeToInt, oans, hl4, hd, hiv, hcont, hsn, not_false_eq_true, and_true, if_true, hcond,
            Bool.false_eq_true, if_false]
          simp [chk]
      · simp only [judgeToInt, oans, hl4, hd, hiv, hcont, false_and, if_false, Bool.false_eq_true]
        rfl
  · have hfin' : isFinite (Buf.ofBytes bytes) = false := by simpa using hfin
    rw [C11.C11_specials T _ n hwf hn I hI hfin']
    have hcls := C08.C08_ieee _ n (DecodeAux.toC08 hwf)
    rw [hbits] at hcls
    cases hd : decode ⟨n⟩ (ofLeBytes bytes) with
    | fin s c e =>
      rw [hd] at hcls
      have : (C08.modelCls (Buf.ofBytes bytes)).fin = true := by rw [hcls]; rfl
      have : isFinite (Buf.ofBytes bytes) = true := this
      rw [hfin'] at this; cases this
    | inf s => simp only [judgeToInt, oans, hl4, hd]; rfl
    | nan s g p => simp only [judgeToInt, oans, hl4, hd]; rfl

/-- **C11: the oracle accepts the model's `to_<int>` answer** for every held bit pattern of the four bounded types and
    every primitive target. -/
theorem judgeToInt_model (T : Ty) (hT : T ≠ .big) (bytes : List Nat) (h : T.holds bytes.length = true)
    (hb : ∀ x ∈ bytes, x < 256) (I : IntTy) (hI : I.bits ≤ 128) :
    judgeToInt bytes I (oans (toInt T (Buf.ofBytes bytes) I)) = [] := by
  apply judgeToInt_model_partial T bytes h hb I hI
  obtain ⟨n, hn, hl, _, hc⟩ := (holds_iff T _).1 h
  have : n ≤ 5 := by cases T <;> simp [Ty.capN] at hc hT ⊢ <;> omega
  omega

/-- **Finding (C11, `BigBitstring` buffers of about 1 GB and more).**  The full statement of `judgeToInt_model` — for
    `BigBitstring` without a length bound — is FALSE: for a width of `32n` bits with `9n − 2 > k + 1 > 2^31`, the canonical
    pattern of `10^k · 10^(−k)` (the integer 1, written with `k` trailing zeros and the exponent `−k` below `i32::MIN`) is
    answered `None` by the model (as by `decimal_to_int`, whose `exp.to_i32()` fails and whose fallback arm accepts only
    zero), while the oracle — rightly, by the text of C11 — demands `Some(1)`.  The smallest such buffer has
    `n = 238 609 295` words (954 437 180 bytes). -/
theorem judgeToInt_big_huge_rejected (n k : Nat) (hk : 2147483648 < k) (hn : k + 1 ≤ 9 * n - 2) :
    let bytes := leBytes (4 * n) (encodeFin ⟨n⟩ false (10 ^ k) (-(k : Int)))
    Ty.big.holds bytes.length = true ∧ (∀ x ∈ bytes, x < 256) ∧
    toInt .big (Buf.ofBytes bytes) ⟨true, 8⟩ = none ∧
    judgeToInt bytes ⟨true, 8⟩ (oans (toInt .big (Buf.ofBytes bytes) ⟨true, 8⟩)) ≠ [] := by
  intro bytes
  have hn0 : 0 < n := by omega
  have hc : 10 ^ k < 10 ^ (Fmt.mk n).p := Nat.pow_lt_pow_right (by decide) (by simp only [Fmt.p]; omega)
  have hpw := pw_ge n
  have he : (Fmt.mk n).qmin ≤ -(k : Int) ∧ -(k : Int) ≤ (Fmt.mk n).qmax := by
    simp only [Fmt.qmin, Fmt.qmax, Fmt.bias, Fmt.emax, Fmt.p]
    have : (2 : Nat) ^ (2 * n + 3) = pw n := rfl
    rw [this]
    omega
  obtain ⟨hdec, hlt⟩ := decode_encodeFin n hn0 false (10 ^ k) (-(k : Int)) hc he
  have hlen : bytes.length = 4 * n := leBytes_length _ _
  have hbits : ofLeBytes bytes = encodeFin ⟨n⟩ false (10 ^ k) (-(k : Int)) :=
    ofLeBytes_leBytes _ _ (by have e : 8 * (4 * n) = 32 * n := by omega
                              rw [e]; exact hlt)
  have hbuf : Buf.ofBytes bytes = ⟨4 * n, encodeFin ⟨n⟩ false (10 ^ k) (-(k : Int))⟩ := by
    simp only [Buf.ofBytes, hlen, hbits]
  have hwf : WF (Buf.ofBytes bytes) n := by rw [hbuf]; exact ⟨hn0, rfl, hlt⟩
  have hpos : 0 < 10 ^ k := Nat.pow_pos (by decide)
  -- the model: the exponent is not an `i32`, the digits are not all zero
  have hnone : toInt .big (Buf.ofBytes bytes) ⟨true, 8⟩ = none := by
    have hfin : isFinite (Buf.ofBytes bytes) = true := by
      have hcl := C08.C08_ieee _ n (DecodeAux.toC08 hwf)
      rw [hbuf] at hcl
      simp only at hcl
      rw [hdec] at hcl
      have : (C08.modelCls (Buf.ofBytes bytes)).fin = true := by rw [hbuf, hcl]; rfl
      exact this
    have hd := decode_finite _ n hwf hfin
    rw [hbuf] at hd
    simp only at hd
    rw [hdec] at hd
    rw [← hbuf] at hd
    injection hd with h1 h2 h3
    obtain ⟨_, ha⟩ := allDigits_ascii _ n hwf
    have hall : (allDigits (Buf.ofBytes bytes) (unbiasedExponent (Buf.ofBytes bytes)).2).all (· == 48) = false := by
      cases hz : (allDigits (Buf.ofBytes bytes) (unbiasedExponent (Buf.ofBytes bytes)).2).all (· == 48) with
      | false => rfl
      | true => have := (all_zero_iff _ ha).1 hz; omega
    unfold toInt
    simp only [toIntCore, ← h1, ← h3, hall, Ty.expIsI32, Bool.false_or, Bool.false_and, Bool.and_false]
    have : decide (i32Min ≤ -(k : Int)) = false := decide_eq_false (by simp only [i32Min]; omega)
    simp [this]
  have hholds : Ty.big.holds bytes.length = true :=
    (holds_iff _ _).2 ⟨n, hn0, hlen, (fun w hw => nomatch hw), (fun c hc => nomatch hc)⟩
  refine ⟨hholds, leBytes_lt _ _, hnone, ?_⟩
  -- the oracle: the value is the integer 1
  have hdig : ¬ (k > digits10 (10 ^ k)) := by
    intro hgt
    rw [digits10_eq] at hgt
    have := (natDigits_length_le (10 ^ k) (k - 1) (by omega)).1 (by omega)
    have : 10 ^ (k - 1) ≤ 10 ^ k := Nat.pow_le_pow_right (by decide) (by omega)
    omega
  have hiv : intValue false (10 ^ k) (-(k : Int)) = some 1 := by
    unfold intValue
    have h0 : ¬ (10 ^ k = 0) := by omega
    have hge : ¬ (-(k : Int) ≥ 0) := by omega
    have hk' : (- -(k : Int)).toNat = k := by omega
    simp only [h0, if_false, hge, hk', hdig, Nat.mod_self, if_true, Nat.div_self hpos]
    rfl
  have hl4 : bytes.length / 4 = n := by omega
  rw [hnone]
  simp only [judgeToInt, oans, hl4, hbits, hdec, hiv]
  have : (⟨true, 8⟩ : IntTy).contains 1 = true := by decide
  simp [this, chk]

/-! ## byte-level API (C16, C17) -/

/-- **C16 / C17: the oracle accepts the model's `try_from_le_bytes` answer** for the two dynamic types. -/
theorem judgeTryLe_model (T : Ty) (hT : T = .dyn ∨ T = .big) (bytes : List Nat) (hb : ∀ x ∈ bytes, x < 256) :
    judgeTryLe T bytes (pans (liftOverflow (tryFromLeBytes T bytes))) = [] := by
  cases hr : tryFromLeBytes T bytes with
  | ok b =>
    have hv := C16.C16_try_verbatim T bytes b hr
    have hh := (C16.C16_try_accepts T hT bytes).1 ⟨b, hr⟩
    subst hv
    simp only [liftOverflow, pans, judgeTryLe, C16.C16_le_roundtrip bytes hb, hh]
    simp [chk]
  | error e =>
    have hnh : T.holds bytes.length = false := by
      cases hh : T.holds bytes.length with
      | false => rfl
      | true =>
        obtain ⟨b, hb'⟩ := (C16.C16_try_accepts T hT bytes).2 hh
        rw [hr] at hb'; cases hb'
    rcases C16.C17_len_error T hT bytes e hr with ⟨h0, he⟩ | ⟨hdyn, h20, h4, he⟩
    · subst he
      have hcond : (bytes.length == 0 || bytes.length % 4 != 0) = true := by
        rcases h0 with h0 | h0 <;> simp [h0]
      simp only [liftOverflow, pans, errFacts, judgeTryLe, hnh, hcond, if_true]
      simp [chk]
    · subst he hdyn
      have hcond : (bytes.length == 0 || bytes.length % 4 != 0) = false := by
        have : bytes.length ≠ 0 := by omega
        simp [this, h4]
      simp only [liftOverflow, pans, errFacts, judgeTryLe, hnh, hcond, Bool.false_eq_true, if_false, Bool.not_false,
        if_true]
      simp [chk, Ty.capN]

/-- **C16: the oracle accepts the model's answer to a `bytes` request** (store, read back, reverse). -/
theorem judgeBytesApi_model (bytes : List Nat) (hb : ∀ x ∈ bytes, x < 256) :
    judgeBytesApi bytes (Buf.ofBytes bytes).toBytes bytes.reverse bytes.reverse = [] := by
  simp [judgeBytesApi, C16.C16_le_roundtrip bytes hb, chk]

/-! ## published limits (C18) -/

/-- **C18: the oracle accepts the model's constants** (`max()`, `min()`, `min_positive()` and the three numbers). -/
theorem judgeConsts_model (T : Ty) (n : Nat) (hT : T.fixedN = some n) :
    judgeConsts T ⟨(encodeMax (4 * n) false).toBytes, (encodeMax (4 * n) true).toBytes, (encodeMin (4 * n) false).toBytes,
      (encodeMax (4 * n) false).toBytes, (encodeMax (4 * n) true).toBytes, (encodeMin (4 * n) false).toBytes,
      (Fmt.mk n).p, (Fmt.mk n).qmin, (Fmt.mk n).qmax⟩ = [] := by
  have hn : 0 < n := by cases T <;> simp [Ty.fixedN] at hT <;> omega
  obtain ⟨h1, h2, h3⟩ := C18.C18_fns n hn
  have hpos : 0 < 10 ^ (Fmt.mk n).p := Nat.pow_pos (by decide)
  have hp1 : (1 : Nat) < 10 ^ (Fmt.mk n).p := by
    have : (Fmt.mk n).p ≥ 1 := by simp only [Fmt.p]; omega
    calc (1 : Nat) < 10 ^ 1 := by decide
      _ ≤ 10 ^ (Fmt.mk n).p := Nat.pow_le_pow_right (by decide) this
  have hq := C18.qmin_le_qmax n hn
  have l1 := (decode_encodeFin n hn false (10 ^ (Fmt.mk n).p - 1) _ (by omega) ⟨hq, Int.le_refl _⟩).2
  have l2 := (decode_encodeFin n hn true (10 ^ (Fmt.mk n).p - 1) _ (by omega) ⟨hq, Int.le_refl _⟩).2
  have l3 := (decode_encodeFin n hn false 1 _ hp1 ⟨Int.le_refl _, hq⟩).2
  simp only [judgeConsts, hT, h1, h2, h3, toBytes_mk_length, ofLeBytes_toBytes_mk n _ l1, ofLeBytes_toBytes_mk n _ l2,
    ofLeBytes_toBytes_mk n _ l3]
  simp [chk]

/-! ## the streaming entry point (C14) -/

/-- whenever streaming gives the string entry point's outcome, the oracle accepts it -/
theorem judgeParseFmt_of_str (T : Ty) (cap : Option Nat) (frags : List (List Nat)) (fault : String)
    (hf : fault.startsWith "fail" = false) :
    judgeParseFmt T cap frags fault (pans (tryParseStr T frags.flatten)) = [] := by
  have hj := judgeParse_model T frags.flatten
  cases hres : tryParseStr T frags.flatten with
  | ok b =>
    rw [hres] at hj
    simp only [pans] at hj ⊢
    simp only [judgeParseFmt, hf, Bool.false_eq_true, if_false, hj, List.map_nil]
  | error e =>
    rw [hres] at hj
    cases e with
    | parse pe =>
      rcases tryParseStr_parse_err T _ pe hres with ⟨c, rfl⟩ | rfl
      · simp only [pans, errFacts] at hj ⊢
        simp only [judgeParseFmt, hf, Bool.false_eq_true, if_false, hj, List.map_nil]
        split <;> simp_all
      · simp only [pans, errFacts] at hj ⊢
        simp only [judgeParseFmt, hf, Bool.false_eq_true, if_false, hj, List.map_nil]
        split <;> simp_all
    | overflow oe =>
      cases oe <;>
      · simp only [pans, errFacts] at hj ⊢
        simp only [judgeParseFmt, hf, Bool.false_eq_true, if_false, hj, List.map_nil]
        split <;> simp_all

/-- **C14: the oracle accepts the model's answer to every `parse_fmt` request whose source does not report failure**
    (an honest `Display` or one that swallows the errors it is handed), for every fragmentation; `cap` is the type's
    text buffer (`C14.textCap`: 32, 64, 128, 128 bytes, unbounded). -/
theorem judgeParseFmt_model (T : Ty) (frags : List (List Nat)) (fault : String) (hf : fault.startsWith "fail" = false)
    (F : Fault) (hF : F = .none ∨ F = .swallow) :
    judgeParseFmt T (C14.textCap T) frags fault (pans (tryParse T frags F)) = [] := by
  have hFn : tryParse T frags F = tryParse T frags .none := by
    rcases hF with rfl | rfl
    · rfl
    · exact C14.C14_swallow T frags
  rw [hFn]
  rcases C14.C14_frag T frags with h | ⟨h, cap, hc, hlt⟩
  · rw [h]; exact judgeParseFmt_of_str T _ frags fault hf
  · rw [h, hc]
    simp only [pans, errFacts, judgeParseFmt, hf, Bool.false_eq_true, if_false]
    have hreq : reqTextCap T ≤ cap := by
      cases T <;> simp only [C14.textCap, Ty.textKind] at hc <;> first
        | (injection hc with hc; subst hc; decide)
        | cases hc
    rw [chk_decide _ _ _ hlt, chk_decide _ _ _ (show frags.flatten.length > reqTextCap T by omega)]
    rfl

/-- **C14 (failing source): the oracle accepts the model's answer** when the `Display` reports failure before
    fragment `k ≤ |frags|` (or at the end). -/
theorem judgeParseFmt_model_fail (T : Ty) (cap : Option Nat) (frags : List (List Nat)) (fault : String)
    (hf : fault.startsWith "fail" = true) (k : Nat) (hk : k ≤ frags.length) :
    judgeParseFmt T cap frags fault (pans (tryParse T frags (.failAt k))) = [] := by
  obtain ⟨e, he⟩ := C14.C14_fault T frags k hk
  rw [he]
  simp only [pans, judgeParseFmt, hf, if_true]

example : ("none".startsWith "fail") = false ∧ ("swallow".startsWith "fail") = false ∧ ("fail:2".startsWith "fail") = true := by
  decide +kernel

/-! ## round trips (C03) -/

/-- the `stable` flag of a `roundtrip` answer as `Model.Api.answerWith` computes it -/
def modelStable (T : Ty) (back : Except Err Buf) : Bool :=
  match back with
  | .ok b2 => (match tryParseStr T (toText T b2) with | .ok b3 => b3.toBytes == b2.toBytes | _ => false)
  | _ => true

/-- **C03 (all types), everything but the `stable` flag:** the text is judged as in C02, the type reads its own text
    back, and the value read back is the canonical form of the original (fixed widths) / the same datum (dynamic). -/
theorem judgeRoundtrip_nil (T : Ty) (bytes : List Nat) (txt : Option (List Nat)) (back : PAns) (stable : Bool)
    (h : judgeRoundtripCore T bytes txt back stable = []) : judgeRoundtrip T bytes txt back stable = [] := by
  unfold judgeRoundtrip
  rw [h]
  split <;> simp

theorem judgeRoundtrip_model_partial (T : Ty) (bytes : List Nat) (h : T.holds bytes.length = true)
    (hb : ∀ x ∈ bytes, x < 256) :
    judgeRoundtrip T bytes (some (toText T (Buf.ofBytes bytes)))
      (pans (tryParseStr T (toText T (Buf.ofBytes bytes)))) true = [] := by
  obtain ⟨n, hwf, hl, hl4, hw, hc⟩ := WF.ofHolds T bytes h hb
  have hbits : (Buf.ofBytes bytes).bits = ofLeBytes bytes := rfl
  obtain ⟨b', n', hr, hwf', hdec, hfix, hbits'⟩ := C03.C03_reparse T _ n hwf (holds_expIsI32 T n hc) hc
  obtain ⟨len', bits'⟩ := b'
  have hlen' : len' = 4 * n' := hwf'.len
  subst hlen'
  have hlt' : bits' < 2 ^ (32 * n') := hwf'.lt
  simp only at hdec hbits'
  rw [hbits] at hdec hbits'
  have hl4' : (Buf.toBytes ⟨4 * n', bits'⟩).length / 4 = n' := by rw [toBytes_mk_length]; omega
  rw [hr]
  apply judgeRoundtrip_nil
  simp only [judgeRoundtripCore, judgeFormat_model T bytes h hb, pans, List.nil_append, hl4,
    ofLeBytes_toBytes_mk n' bits' hlt', toBytes_mk_length, chk_true, List.append_nil]
  have e4 : 4 * n' / 4 = n' := by omega
  cases hf : T.fixedN with
  | none =>
    simp only [e4, hdec, Datum.same_self]; rfl
  | some w =>
    have h1 := hfix w hf
    have h2 := hw w hf
    subst h1; subst h2
    simp only
    rw [hbits']
    simp [chk, canon, hl]

/-- **C03: the oracle accepts the model's whole `roundtrip` answer, `stable` flag included** — every held bit pattern of
    the three fixed-width types and of `Bitstring`, and of `BigBitstring` up to 160 bits.
    FULL statement asked for: the same without `hbig`; beyond 160 bits `BigBitstring` may read its text back into a
    buffer one step wider than the original, and only `judgeRoundtrip_model_partial` (everything but the `stable` flag)
    is proved there. -/
theorem judgeRoundtrip_model (T : Ty) (bytes : List Nat) (h : T.holds bytes.length = true) (hb : ∀ x ∈ bytes, x < 256)
    (hbig : T = .big → bytes.length ≤ 20) :
    judgeRoundtrip T bytes (some (toText T (Buf.ofBytes bytes)))
      (pans (tryParseStr T (toText T (Buf.ofBytes bytes))))
      (modelStable T (tryParseStr T (toText T (Buf.ofBytes bytes)))) = [] := by
  obtain ⟨n, hwf, hl, _, hw, hc⟩ := WF.ofHolds T bytes h hb
  obtain ⟨b', h1, h2⟩ := reparse_stable T _ n hwf (holds_expIsI32 T n hc) hc hw (fun hT => by have := hbig hT; omega)
  have hst : modelStable T (tryParseStr T (toText T (Buf.ofBytes bytes))) = true := by
    rw [h1]; simp only [modelStable]; rw [h2]; simp
  rw [hst]
  exact judgeRoundtrip_model_partial T bytes h hb

/-- **C03/C09: the reparse step, judged as a parse** — the oracle's extra judgement of the bytes read back (canonical
    encoding at their width, for every type) accepts the model's answer, for every text. -/
theorem judgeReparse_model (T : Ty) (txt : List Nat) : judgeReparse T txt (pans (tryParseStr T txt)) = [] := by
  have hj := judgeParse_model T txt
  unfold judgeReparse
  split
  · rw [hj]; rfl
  · rfl

/-- the fixed-width case of `judgeRoundtrip_model` -/
theorem judgeRoundtrip_model_fixed (T : Ty) (w : Nat) (hT : T.fixedN = some w) (bytes : List Nat)
    (h : T.holds bytes.length = true) (hb : ∀ x ∈ bytes, x < 256) :
    judgeRoundtrip T bytes (some (toText T (Buf.ofBytes bytes)))
      (pans (tryParseStr T (toText T (Buf.ofBytes bytes))))
      (modelStable T (tryParseStr T (toText T (Buf.ofBytes bytes)))) = [] :=
  judgeRoundtrip_model T bytes h hb (fun hb' => by rw [hb'] at hT; cases hT)

/-! ## decimal → binary float (C13) -/

/-- the model's answer to a `to_float` request as `Model.Api.answerWith` renders it: `Bitstring32::to_f64` is offered as
    infallible, so a failure there would be a panic -/
def modelToFloatAns (T : Ty) (B : BinFmt) (r : Option Nat) : OAns :=
  if T == .b32 && B.prec == 53 && r.isNone then .panic else oans (r.map Int.ofNat)

/-- **C13: the oracle accepts the model's `to_f32` / `to_f64` answer** for every held bit pattern of every type. -/
theorem judgeToFloat_model (T : Ty) (bytes : List Nat) (h : T.holds bytes.length = true) (hb : ∀ x ∈ bytes, x < 256)
    (B : BinFmt) (hB : B = binary32 ∨ B = binary64) :
    judgeToFloat T bytes B (modelToFloatAns T B (toFloat (Buf.ofBytes bytes) B)) = [] := by
  obtain ⟨n, hwf, hl, hl4, hw, hc⟩ := WF.ofHolds T bytes h hb
  have hbits : (Buf.ofBytes bytes).bits = ofLeBytes bytes := rfl
  -- the infallible conversion does not panic
  have hans : modelToFloatAns T B (toFloat (Buf.ofBytes bytes) B) = oans ((toFloat (Buf.ofBytes bytes) B).map Int.ofNat) := by
    unfold modelToFloatAns
    by_cases hT : T = .b32
    · subst hT
      have hn1 : n = 1 := (hw 1 rfl)
      subst hn1
      rcases hB with rfl | rfl
      · simp [binary32]
      · obtain ⟨bits, hbt⟩ := C13.C13_b32_total _ hwf
        simp [hbt]
    · have : (T == Ty.b32) = false := by simpa using hT
      simp [this]
  rw [hans]
  by_cases hfin : isFinite (Buf.ofBytes bytes) = true
  · have hd := decode_finite _ n hwf hfin
    rw [hbits] at hd
    cases hr : rneDecSafe B (valOf (allDigits (Buf.ofBytes bytes) (unbiasedExponent (Buf.ofBytes bytes)).2))
        (unbiasedExponent (Buf.ofBytes bytes)).1 with
    | none =>
      have := C13.C13_overflow _ n hwf B hB _ _ _ (by rw [hbits]; exact hd) hr
      rw [this]
      simp only [judgeToFloat, Option.map, oans, hl4, hd, hr]
    | some m =>
      cases ht : toFloat (Buf.ofBytes bytes) B with
      | some fb =>
        obtain ⟨s', c', e', m', hd', hr', _, hfb⟩ := C13.C13_sound _ n hwf B hB hfin fb ht
        rw [hbits, hd] at hd'
        injection hd' with h1 h2 h3
        subst h1 h2 h3
        rw [hr] at hr'
        injection hr' with hr'
        subst hr' hfb
        simp only [judgeToFloat, Option.map, oans, hl4, hd, hr]
        simp [chk]
      | none =>
        simp only [judgeToFloat, Option.map, oans, hl4, hd, hr]
        apply chk_of
        simp only [Bool.not_eq_true', Bool.and_eq_false_iff, bne_eq_false_iff_eq, decide_eq_false_iff_not]
        by_cases hT : T = .big
        · exact Or.inl hT
        · right
          intro hsig
          have hn5 : n ≤ 5 := by cases T <;> simp [Ty.capN] at hc hT ⊢ <;> omega
          obtain ⟨_, ha⟩ := allDigits_ascii _ n hwf
          have hlen := stripped_length_le _ ha
          have := C13.C13_some _ n hwf hn5 B hB hfin (by omega) m hr
          rw [ht] at this; cases this
  · have hfin' : isFinite (Buf.ofBytes bytes) = false := by simpa using hfin
    by_cases hinf : isInfinite (Buf.ofBytes bytes) = true
    · have hd := decode_infinite _ n hwf hinf
      rw [hbits] at hd
      rw [toFloat_infinite _ B hfin' hinf]
      simp only [judgeToFloat, Option.map, oans, hl4, hd, sgnBits]
      simp [chk]
    · have hinf' : isInfinite (Buf.ofBytes bytes) = false := by simpa using hinf
      have hnan : isNan (Buf.ofBytes bytes) = true := by
        rcases C08.C08_partition (Buf.ofBytes bytes) with ⟨h1, _, _⟩ | ⟨_, h2, _⟩ | ⟨_, _, h3⟩
        · rw [h1] at hfin'; cases hfin'
        · rw [h2] at hinf'; cases hinf'
        · exact h3
      have hd := decode_nan _ n hwf hnan
      rw [hbits] at hd
      rw [toFloat_nan _ B hfin' hinf']
      obtain ⟨h1, h2, _⟩ := toFloatNan_isNan B hB (isSignNegative (Buf.ofBytes bytes)) (decodeDeclets (Buf.ofBytes bytes)).flatten
      simp only [judgeToFloat, Option.map, oans, hl4, hd]
      apply chk_of
      simp only [Int.toNat_natCast, Int.ofNat_eq_natCast, h1, Bool.and_eq_true, decide_eq_true_eq, beq_iff_eq]
      refine ⟨⟨by omega, trivial⟩, ?_⟩
      cases hs : isSignNegative (Buf.ofBytes bytes)
      · rw [hs] at h2; simpa using h2
      · rw [hs] at h2; simpa using h2

/-! ## integer → decimal (C10) -/

/-- the model's answer to a `from_int` request as `Model.Api.answerWith` renders it: answer, printed text, value
    converted back (the last two only for a value) -/
def modelFromIntAns (T : Ty) (I : IntTy) (v : Int) : PAns × List Nat × OAns :=
  match fromInt T I v with
  | .ok b => (.ok b.toBytes, toText T b, oans (toInt T b I))
  | r => (resPAns r, [], .none)

/-- **C10: the oracle accepts the model's `from_<int>` answer** for every value of every primitive integer type. -/
theorem judgeFromInt_model (T : Ty) (I : IntTy)
    (hI : I.bits = 8 ∨ I.bits = 16 ∨ I.bits = 32 ∨ I.bits = 64 ∨ I.bits = 128) (v : Int) (hv : I.contains v = true) :
    judgeFromInt T I v (modelFromIntAns T I v).1 (modelFromIntAns T I v).2.1 (modelFromIntAns T I v).2.2 = [] := by
  have hI128 : I.bits ≤ 128 := by omega
  have hfrom := C10.C10_from T I v
  simp only at hfrom
  have hd10 : digits10 v.natAbs = (natDigits v.natAbs).length := digits10_eq _
  -- values of the type have at most 39 digits, so 160 bits suffice
  have hneed5 : need (natDigits v.natAbs).length (some 0) ≤ 5 := by
    have hd := C10.digits_bound I (by omega) v hv 39 (by decide)
      (by rcases hI with h | h | h | h | h <;> rw [h] <;> decide)
    rw [need_le_iff _ _ 5 (by decide)]
    have : (Fmt.mk 5).p = 43 ∧ (Fmt.mk 5).qmin ≤ 0 ∧ (0 : Int) ≤ (Fmt.mk 5).qmax := by decide
    simp [Fmt.fitsB, this.2.1, this.2.2, this.1]; omega
  unfold modelFromIntAns
  cases hr : fromInt T I v with
  | ok b =>
    rw [hr] at hfrom
    obtain ⟨n, hn, hb, hdp, hw⟩ := hfrom
    have hback := C10.C10_back T I hI128 v hv b hr
    have hc : v.natAbs < 10 ^ (Fmt.mk n).p :=
      (natDigits_length_le v.natAbs (Fmt.mk n).p (by simp only [Fmt.p]; omega)).1 hdp
    have hq : (Fmt.mk n).qmin ≤ 0 ∧ (0 : Int) ≤ (Fmt.mk n).qmax := by
      have h1 := C11.qmax_ge_90 n hn
      simp only [Fmt.qmin]; omega
    obtain ⟨hdec, hlt⟩ := decode_encodeFin n hn (decide (v < 0)) v.natAbs 0 hc hq
    have hwf : WF b n := ⟨hn, by rw [hb], by rw [hb]; exact hlt⟩
    have hprint := toText_integer T b n hwf _ _ (by rw [hb]; exact hdec)
    have hneedn : need (natDigits v.natAbs).length (some 0) ≤ n := by
      rw [need_le_iff _ _ n hn]
      simp [Fmt.fitsB, hq.1, hq.2, hdp]
    -- the width is the one the oracle expects
    have hwn : (T.fixedN).getD (need (natDigits v.natAbs).length (some 0)) = n := by
      cases hf : T.fixedN with
      | some w => rw [hf] at hw; simp [hw]
      | none =>
        rw [hf] at hw
        rcases hw with h | ⟨h, _, _⟩
        · simp [h]
        · omega
    have hcapall : (T.capN).all (fun x => decide (need (natDigits v.natAbs).length (some 0) ≤ x)) = true := by
      cases hcap : T.capN with
      | none => rfl
      | some cap =>
        have hlen : b.len ≤ 4 * cap := by
          rw [C10.fromInt_eq] at hr
          cases hps : tryParseStr T (toDecimal v) with
          | ok b' =>
            rw [hps] at hr
            injection hr with hr; subst hr
            exact tryParseStr_len_cap T _ b' hps cap hcap
          | error e =>
            rw [hps] at hr
            cases e with
            | parse pe => cases hr
            | overflow oe => simp only at hr; split at hr <;> cases hr
        rw [hb] at hlen
        simp only [Option.all_some, decide_eq_true_eq]
        simp only at hlen
        omega
    subst hb
    simp only [judgeFromInt, hd10, hwn, judgeBytes_mk "C10" n _ hlt, hprint, toDecimal_signText, hback, oans]
    rw [chk_of _ _ _ hcapall]
    simp [chk]
  | none =>
    rw [hr] at hfrom
    obtain ⟨_, cap, hcap, hlt⟩ := hfrom
    simp only [resPAns, judgeFromInt, hd10, hcap]
    exact chk_decide _ _ _ hlt
  | panic =>
    obtain ⟨b, hb⟩ : ∃ b, fromInt T I v = .ok b := by
      by_cases hinf : T.intInfallible I = true
      · exact C10.C10_infallible T I hI hinf v hv
      · rw [hr] at hfrom; exact absurd hfrom.1 hinf
    rw [hr] at hb; cases hb

/-! ## binary float → decimal (C12), on top of `Props/C12.lean` -/

/-- the model's answer to a `from_float` request as `Model.Api.answerWith` renders it -/
def modelFromFloatAns (T : Ty) (B : BinFmt) (bits : Nat) (ryu : List Nat) : PAns × List Nat × OAns :=
  match fromFloat T B bits ryu with
  | .ok b => (.ok b.toBytes, toText T b,
      if T == .b32 && B.prec == 53 && (toFloat b B).isNone then .panic else oans ((toFloat b B).map Int.ofNat))
  | r => (resPAns r, [], .none)

/-- **C12: the oracle accepts the model's `from_f32` / `from_f64` answer** — NaNs and infinities unconditionally, a finite
    float under the float formatter's contract (`C12.RyuContractWide`, which is what the oracle's own "RYU" check plus the
    shape of `ryu`'s output amounts to); for `Bitstring64` (offered as infallible from `f32` only) with the sharpening of
    `C12.C12_infallible`, without which the `expect` in the implementation could panic. -/
theorem judgeFromFloat_model (T : Ty) (B : BinFmt) (hB : B = binary32 ∨ B = binary64) (bits : Nat)
    (hbits : bits < 2 ^ B.width) (ryu : List Nat)
    (hry : B.isNan bits = false → B.isInf bits = false → ∃ s i fr ex, C12.RyuContractWide B bits ryu s i fr ex ∧
      (T.floatInfallible B = true → T = .b64 → i.length + fr.length ≤ 16 ∧ -60 ≤ expValue ex ∧ expValue ex ≤ 60)) :
    judgeFromFloat T B bits ryu (modelFromFloatAns T B bits ryu).1 (modelFromFloatAns T B bits ryu).2.1
      (modelFromFloatAns T B bits ryu).2.2 = [] := by
  have hbase := C09.baseN_pos T
  have hbN : (T.fixedN).getD 1 = C09.baseN T := rfl
  unfold modelFromFloatAns
  by_cases hnan : B.isNan bits = true
  · rw [C12.C12_nan T B bits ryu hnan]
    have hlt := (decode_encodeNan (C09.baseN T) hbase (decide (bits ≥ B.signMask)) false 0 (Nat.pow_pos (by decide))).2
    simp only [judgeFromFloat, hnan, if_true, hbN, judgeBytes_mk "C12" _ _ hlt]
  · have hnan' : B.isNan bits = false := by simpa using hnan
    by_cases hinf : B.isInf bits = true
    · have hb := C12.C12_inf T B bits ryu hinf
      have hback := C12.C12_back_inf T B hB bits hbits ryu hinf _ hb
      rw [hb]
      have hlt := (decode_encodeInf (C09.baseN T) hbase (decide (bits ≥ B.signMask))).2
      simp only [judgeFromFloat, hnan', hinf, if_true, Bool.false_eq_true, if_false, hbN,
        judgeBytes_mk "C12" _ _ hlt, hback, Option.isNone_some, Bool.and_false, Option.map, oans]
      simp [chk]
    · have hinf' : B.isInf bits = false := by simpa using hinf
      obtain ⟨s, i, fr, ex, hc, h64⟩ := hry hnan' hinf'
      have hout := C12.C12_finite_wide T B hB bits ryu s i fr ex hc
      have hsign : s = decide (bits ≥ B.signMask) := hc.sign
      have hs' : decide (B.signMask ≤ bits) = s := hsign.symm
      have hs'' : decide (bits ≥ B.signMask) = s := hsign.symm
      have hryu : (s == s &&
          rneDecSafe B (ofDigits (i ++ fr)) (expValue ex - ↑fr.length) == some (bits % B.signMask)) = true := by
        rw [hc.rounds]; simp
      have hryu2 : (decide (i.length + fr.length ≤ 34) && decide (ofDigits (i ++ fr) < 10 ^ 17) && decide (-400 ≤ expValue ex) &&
          decide (expValue ex ≤ 400)) = true := by
        simp only [Bool.and_eq_true, decide_eq_true_eq]
        exact ⟨⟨⟨hc.written, hc.significant⟩, hc.expo.1⟩, hc.expo.2⟩
      have hryu3 : startsDigitOrMinusDigit ryu = true := by
        have h1 := hc.starts
        have h2 : ∀ t, startsWithDigitOrMinusDigit t = startsDigitOrMinusDigit t := by
          intro t
          cases t with
          | nil => rfl
          | cons c rest => cases rest <;> rfl
        rw [← h2]; exact h1
      have h4 := C12.need_le_four hc.written hc.expo
      have hlenapp : (i ++ fr).length = i.length + fr.length := List.length_append
      cases hr : fromFloat T B bits ryu with
      | ok b =>
        rw [hr] at hout
        obtain ⟨n, hn, hb, hfit, hw⟩ := hout
        obtain ⟨n', hwf, hdec⟩ := C12.C12_value T B hB bits ryu s i fr ex hc b hr
        have hnn : n' = n := by have := hwf.len; rw [hb] at this; simp only at this; omega
        subst hnn
        have hback := C12.C12_back_wide T B hB bits hbits ryu s i fr ex hc b hr
        have hneedn := (need_le_iff _ _ n' hn).2 hfit
        have hlt : encodeFin ⟨n'⟩ s (ofDigits (i ++ fr)) (expValue ex - ↑fr.length) < 2 ^ (32 * n') := by
          have := hwf.lt; rw [hb] at this; exact this
        -- the width, as the oracle reads it off the answer
        have hl4 : (Buf.toBytes ⟨4 * n', encodeFin ⟨n'⟩ s (ofDigits (i ++ fr)) (expValue ex - ↑fr.length)⟩).length / 4 = n' := by
          rw [toBytes_mk_length]; omega
        have hwn : (T.fixedN).getD n' = n' := by
          cases hf : T.fixedN with
          | some w => rw [hf] at hw; simp [hw]
          | none => rfl
        have hn4 : T.fixedN = none → n' = need (i.length + fr.length) (some (expValue ex - ↑fr.length)) := by
          intro hf
          rw [hf] at hw
          rcases hw with h | ⟨h, _, _⟩
          · exact h
          · omega
        have hcapall : (T.capN).all (fun x => decide (need (i.length + fr.length) (some (expValue ex - ↑fr.length)) ≤ x)) = true := by
          cases hcap : T.capN with
          | none => rfl
          | some cap =>
            simp only [Option.all_some, decide_eq_true_eq]
            cases hf : T.fixedN with
            | some w =>
              rw [hf] at hw
              have := fixed_cap T w hf
              rw [hcap] at this; injection this with this
              omega
            | none =>
              have := hn4 hf
              have : 5 = cap := by cases T <;> simp [Ty.fixedN, Ty.capN] at hf hcap; exact hcap
              omega
        have hwidth : (T.fixedN.isSome || (decide (need (i.length + fr.length) (some (expValue ex - ↑fr.length)) ≤ n') &&
            (decide (n' ≤ need (i.length + fr.length) (some (expValue ex - ↑fr.length))) ||
              (T == .big && decide (need (i.length + fr.length) (some (expValue ex - ↑fr.length)) > 5) &&
                decide (n' ≤ need (i.length + fr.length) (some (expValue ex - ↑fr.length)) + 1))))) = true := by
          cases hf : T.fixedN with
          | some w => rfl
          | none =>
            have := hn4 hf
            simp only [Option.isSome_none, Bool.false_or, Bool.and_eq_true, Bool.or_eq_true, decide_eq_true_eq]
            exact ⟨by omega, Or.inl (by omega)⟩
        have hT : C02.Holds T n' := by
          intro hi32
          cases hf : T.fixedN with
          | some w => rw [hf] at hw; cases T <;> simp [Ty.fixedN] at hf <;> omega
          | none => have := hn4 hf; omega
        obtain ⟨num, hparse, hdatum, _⟩ := C02.C02_format T b n' hwf hT
        rw [hdec, hs''] at hdatum
        subst hb
        simp only [judgeFromFloat, hs', hnan', hinf', Bool.false_eq_true, if_false, hc.parses, hlenapp, hl4, hwn,
          judgeBytes_mk "C12" n' _ hlt, hparse, hdatum, Datum.same_self, hback, Option.isNone_some, Bool.and_false,
          Option.map, oans]
        rw [chk_of _ _ _ hryu, chk_of _ _ _ hryu2, chk_of _ _ _ hryu3, chk_of _ _ _ hcapall, chk_of _ _ _ hwidth]
        simp [chk]
      | none =>
        rw [hr] at hout
        obtain ⟨_, cap, hcap, hlt⟩ := hout
        simp only [judgeFromFloat, resPAns, hs', hnan', hinf', Bool.false_eq_true, if_false, hc.parses, hlenapp, hcap]
        rw [chk_of _ _ _ hryu, chk_of _ _ _ hryu2, chk_of _ _ _ hryu3, chk_decide _ _ _ hlt]
        rfl
      | panic =>
        rw [hr] at hout
        obtain ⟨hinfal, _⟩ := hout
        obtain ⟨b, hb⟩ := C12.C12_infallible_wide T B hB bits ryu s i fr ex hc hinfal (h64 hinfal)
        rw [hr] at hb; cases hb

/-! ## the hypotheses are satisfiable: one concrete instance per theorem -/

/-- `-1.50e3` into decimal32; a 45-digit numeral that `Bitstring` must refuse; `snan(042)`; a syntax error -/
example : judgeParse .b32 [45, 49, 46, 53, 48, 101, 51] (pans (tryParseStr .b32 [45, 49, 46, 53, 48, 101, 51])) = [] :=
  judgeParse_model _ _
example : judgeParse .dyn (List.replicate 45 55) (pans (tryParseStr .dyn (List.replicate 45 55))) = [] :=
  judgeParse_model _ _
example : judgeParse .big [115, 110, 97, 110, 40, 48, 52, 50, 41] (pans (tryParseStr .big [115, 110, 97, 110, 40, 48, 52, 50, 41])) = [] :=
  judgeParse_model _ _
example : judgeParse .b64 [49, 46, 120] (pans (tryParseStr .b64 [49, 46, 120])) = [] := judgeParse_model _ _
/-- `-1.5e+3` (`Proofs.exFinite`) into decimal32 is `A2 70 00 15` -/
theorem exFinite_b32 : tryParseStr .b32 exFinite = .ok ⟨4, 0xA2700015⟩ := by
  unfold tryParseStr
  rw [exFinite_ok]
  show liftOverflow (fromParsed Ty.b32 _) = _
  decide +kernel
example : judgeReprint exFinite (toText .b32 ⟨4, 0xA2700015⟩) = [] := judgeReprint_model .b32 _ _ exFinite_b32

/-- a non-canonical 64-bit pattern (all-ones declets, large-digit combination) -/
def exBytes : List Nat := [0xff, 0xff, 0xff, 0xff, 0xff, 0xff, 0xff, 0x6f]
example : Ty.b64.holds exBytes.length = true ∧ Ty.dyn.holds exBytes.length = true ∧ ∀ x ∈ exBytes, x < 256 := by decide
example : judgeFormat exBytes (some (toText .b64 (Buf.ofBytes exBytes))) = [] :=
  judgeFormat_model .b64 exBytes (by decide) (by decide)
example : judgeClassify exBytes (C08.modelCls (Buf.ofBytes exBytes)) (firstTok (toText .dyn (Buf.ofBytes exBytes))).1
    (firstTok (toText .dyn (Buf.ofBytes exBytes))).2 = [] :=
  judgeClassify_model .dyn exBytes (by decide) (by decide)
example : judgeToInt exBytes ⟨false, 64⟩ (oans (toInt .b64 (Buf.ofBytes exBytes) ⟨false, 64⟩)) = [] :=
  judgeToInt_model .b64 (by decide) exBytes (by decide) (by decide) ⟨false, 64⟩ (by decide)
example : judgeToInt exBytes ⟨true, 128⟩ (oans (toInt .big (Buf.ofBytes exBytes) ⟨true, 128⟩)) = [] :=
  judgeToInt_model_partial .big exBytes (by decide) (by decide) ⟨true, 128⟩ (by decide) (by decide)
example : judgeToFloat .b64 exBytes binary32 (modelToFloatAns .b64 binary32 (toFloat (Buf.ofBytes exBytes) binary32)) = [] :=
  judgeToFloat_model .b64 exBytes (by decide) (by decide) binary32 (Or.inl rfl)
example : judgeRoundtrip .b64 exBytes (some (toText .b64 (Buf.ofBytes exBytes)))
    (pans (tryParseStr .b64 (toText .b64 (Buf.ofBytes exBytes))))
    (modelStable .b64 (tryParseStr .b64 (toText .b64 (Buf.ofBytes exBytes)))) = [] :=
  judgeRoundtrip_model_fixed .b64 2 rfl exBytes (by decide) (by decide)
example : judgeRoundtrip .big exBytes (some (toText .big (Buf.ofBytes exBytes)))
    (pans (tryParseStr .big (toText .big (Buf.ofBytes exBytes)))) true = [] :=
  judgeRoundtrip_model_partial .big exBytes (by decide) (by decide)
example : judgeRoundtrip .dyn exBytes (some (toText .dyn (Buf.ofBytes exBytes)))
    (pans (tryParseStr .dyn (toText .dyn (Buf.ofBytes exBytes))))
    (modelStable .dyn (tryParseStr .dyn (toText .dyn (Buf.ofBytes exBytes)))) = [] :=
  judgeRoundtrip_model .dyn exBytes (by decide) (by decide) (by decide)
example : judgeBytesApi exBytes (Buf.ofBytes exBytes).toBytes exBytes.reverse exBytes.reverse = [] :=
  judgeBytesApi_model exBytes (by decide)

/-- a valid length, an odd length, a multiple of 4 beyond `Bitstring`'s capacity -/
example : judgeTryLe .dyn exBytes (pans (liftOverflow (tryFromLeBytes .dyn exBytes))) = [] :=
  judgeTryLe_model .dyn (Or.inl rfl) exBytes (by decide)
example : judgeTryLe .dyn [1, 2, 3, 4, 5] (pans (liftOverflow (tryFromLeBytes .dyn [1, 2, 3, 4, 5]))) = [] :=
  judgeTryLe_model .dyn (Or.inl rfl) _ (by decide)
example : judgeTryLe .dyn (List.replicate 24 7) (pans (liftOverflow (tryFromLeBytes .dyn (List.replicate 24 7)))) = [] :=
  judgeTryLe_model .dyn (Or.inl rfl) _ (by decide)

example : Ty.b128.fixedN = some 4 := rfl
/-- `i64::MIN` into decimal64 does not fit (19 digits): the fallible conversion answers `None` -/
example : (⟨true, 64⟩ : IntTy).contains (-9223372036854775808) = true := by decide
example : judgeFromInt .b64 ⟨true, 64⟩ (-9223372036854775808) (modelFromIntAns .b64 ⟨true, 64⟩ (-9223372036854775808)).1
    (modelFromIntAns .b64 ⟨true, 64⟩ (-9223372036854775808)).2.1 (modelFromIntAns .b64 ⟨true, 64⟩ (-9223372036854775808)).2.2 = [] :=
  judgeFromInt_model .b64 ⟨true, 64⟩ (by decide) _ (by decide)
/-- the `f64` `-2.5e-7` into `Bitstring128`, a NaN into `Bitstring32` (no contract needed) -/
example : judgeFromFloat .b128 binary64 0xBE90C6F7A0B5ED8D [45, 50, 46, 53, 101, 45, 55]
    (modelFromFloatAns .b128 binary64 0xBE90C6F7A0B5ED8D [45, 50, 46, 53, 101, 45, 55]).1
    (modelFromFloatAns .b128 binary64 0xBE90C6F7A0B5ED8D [45, 50, 46, 53, 101, 45, 55]).2.1
    (modelFromFloatAns .b128 binary64 0xBE90C6F7A0B5ED8D [45, 50, 46, 53, 101, 45, 55]).2.2 = [] :=
  judgeFromFloat_model .b128 binary64 (Or.inr rfl) _ (by decide) _
    (fun _ _ => ⟨_, _, _, _, C12.ryu_f64_sci.wide, fun _ h => nomatch h⟩)
example : judgeFromFloat .b32 binary32 0x7FC00000 [] (modelFromFloatAns .b32 binary32 0x7FC00000 []).1
    (modelFromFloatAns .b32 binary32 0x7FC00000 []).2.1 (modelFromFloatAns .b32 binary32 0x7FC00000 []).2.2 = [] :=
  judgeFromFloat_model .b32 binary32 (Or.inl rfl) _ (by decide) _ (fun h => nomatch (show binary32.isNan 0x7FC00000 = false from h))
example : (2147483648 : Nat) < 2147483649 ∧ 2147483649 + 1 ≤ 9 * 238609295 - 2 := by decide

/-- three fragments `-1`, `.5`, `e3` -/
example : judgeParseFmt .b32 (C14.textCap .b32) [[45, 49], [46, 53], [101, 51]] "none"
    (pans (tryParse .b32 [[45, 49], [46, 53], [101, 51]] .none)) = [] :=
  judgeParseFmt_model .b32 _ "none" (by decide +kernel) .none (Or.inl rfl)
example : judgeParseFmt .b32 (some 32) [[45, 49], [46, 53]] "fail:1" (pans (tryParse .b32 [[45, 49], [46, 53]] (.failAt 1))) = [] :=
  judgeParseFmt_model_fail .b32 _ _ "fail:1" (by decide +kernel) 1 (by decide)

end Decstr.Props.Judged

#print axioms Decstr.Props.Judged.judgeParse_model
#print axioms Decstr.Props.Judged.judgeReprint_model
#print axioms Decstr.Props.Judged.judgeFormat_model
#print axioms Decstr.Props.Judged.judgeClassify_model
#print axioms Decstr.Props.Judged.judgeToInt_model_partial
#print axioms Decstr.Props.Judged.judgeToInt_model
#print axioms Decstr.Props.Judged.judgeToInt_big_huge_rejected
#print axioms Decstr.Props.Judged.judgeTryLe_model
#print axioms Decstr.Props.Judged.judgeBytesApi_model
#print axioms Decstr.Props.Judged.judgeConsts_model
#print axioms Decstr.Props.Judged.judgeParseFmt_model
#print axioms Decstr.Props.Judged.judgeParseFmt_model_fail
#print axioms Decstr.Props.Judged.judgeRoundtrip_model_partial
#print axioms Decstr.Props.Judged.judgeRoundtrip_model
#print axioms Decstr.Props.Judged.judgeRoundtrip_model_fixed
#print axioms Decstr.Props.Judged.judgeToFloat_model
#print axioms Decstr.Props.Judged.judgeFromInt_model
#print axioms Decstr.Props.Judged.judgeFromFloat_model
