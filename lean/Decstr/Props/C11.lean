import Decstr.Proofs.Decode
import Decstr.Proofs.ToInt
import Decstr.Proofs.Widths
/-!
# C11 — decimal → integer never lies and finds every in-range integer value

`toInt T b I` is the model of `to_<int>` / `TryFrom` (`decimal_to_int`).  Stated against `Spec.decode`, for every
width, every bit pattern and every target of at most 128 bits.
-/
namespace Decstr.Props.C11
open Decstr.Model Decstr.Spec Decstr.Proofs Decstr.Proofs.DecodeAux

theorem qmax_ge_90 (n : Nat) (hn : 0 < n) : (Fmt.mk n).qmax ≥ 90 := by
  have h1 := pw_ge n
  have h2 : pw n ≥ 32 := by
    have := pw_mono (show 1 ≤ n from hn)
    have e : pw 1 = 32 := by decide
    omega
  simp only [Fmt.qmax, Fmt.emax, Fmt.p]
  have : (2 : Nat) ^ (2 * n + 3) = pw n := rfl
  rw [this]
  omega

/-- **C11 (characterisation).** For a finite pattern the answer is exactly `exactInt` of the decoded
    (sign, coefficient, exponent): the exact value when it is an integer inside the target's range. -/
theorem C11_eq (T : Ty) (b : Buf) (n : Nat) (h : WF b n) (hn : n < 2 ^ 27) (I : IntTy) (hI : I.bits ≤ 128)
    (hfin : isFinite b = true) :
    ∃ s c e, decode ⟨n⟩ b.bits = .fin s c e ∧ toInt T b I = exactInt I s c e := by
  obtain ⟨hl, ha⟩ := allDigits_ascii b n h
  have hp := precision_eq b n h
  refine ⟨_, _, _, decode_finite b n h hfin, ?_⟩
  exact toInt_eq_exactInt T b I hfin ha (by rw [hl, hp]) hI (by rw [hp]; omega)

/-- **C11 (never lies).** `Some i` only if the decimal is finite and its exact value `(−1)^s · c · 10^e` equals `i`,
    which then lies in the target's range. -/
theorem C11_sound (T : Ty) (b : Buf) (n : Nat) (h : WF b n) (hn : n < 2 ^ 27) (I : IntTy) (hI : I.bits ≤ 128) (v : Int)
    (hv : toInt T b I = some v) :
    ∃ s c e, decode ⟨n⟩ b.bits = .fin s c e ∧ IsValue s c e v ∧ I.contains v = true := by
  by_cases hfin : isFinite b = true
  · obtain ⟨s, c, e, hd, he⟩ := C11_eq T b n h hn I hI hfin
    rw [he, exactInt_eq_some_iff] at hv
    exact ⟨s, c, e, hd, hv.1, hv.2.1⟩
  · -- NaNs and infinities decode through the finite path to a leading digit 8/9 and a huge exponent: always None
    have hfin' : isFinite b = false := by simpa using hfin
    obtain ⟨h8, he⟩ := nonfinite_through_finite_path b n h hfin'
    have hq := qmax_ge_90 n h.pos
    rw [toInt_nonfinite T b I hfin' hI h8 (by omega)] at hv
    cases hv

/-- **C11 (finds every in-range integer).** Whatever cohort member encodes it (17e1, 170e-1, zero with any exponent),
    a finite decimal whose exact value is an integer inside the target's range converts to `Some` of it; the only
    excluded case is a negative sign into an unsigned target (the property leaves negative zero unspecified). -/
theorem C11_complete (T : Ty) (b : Buf) (n : Nat) (h : WF b n) (hn : n < 2 ^ 27) (I : IntTy) (hI : I.bits ≤ 128)
    (s : Bool) (c : Nat) (e : Int) (hd : decode ⟨n⟩ b.bits = .fin s c e) (v : Int)
    (hv : IsValue s c e v) (hr : I.contains v = true) (hs : ¬ (s = true ∧ I.signed = false)) :
    toInt T b I = some v := by
  have hfin : isFinite b = true := by
    have hc := C08.C08_ieee b n (toC08 h)
    rw [hd] at hc
    have : (C08.modelCls b).fin = true := by rw [hc]; rfl
    exact this
  obtain ⟨s', c', e', hd', he⟩ := C11_eq T b n h hn I hI hfin
  rw [hd] at hd'
  injection hd' with h1 h2 h3
  subst h1 h2 h3
  rw [he, exactInt_eq_some_iff]
  exact ⟨hv, hr, hs⟩

/-- **C11 (specials).** NaNs and infinities never convert. -/
theorem C11_specials (T : Ty) (b : Buf) (n : Nat) (h : WF b n) (hn : n < 2 ^ 27) (I : IntTy) (hI : I.bits ≤ 128)
    (hnf : isFinite b = false) : toInt T b I = none := by
  cases hv : toInt T b I with
  | none => rfl
  | some v =>
    obtain ⟨s, c, e, hd, _⟩ := C11_sound T b n h hn I hI v hv
    have hc := C08.C08_ieee b n (toC08 h)
    rw [hd] at hc
    have : (C08.modelCls b).fin = true := by rw [hc]; rfl
    have : isFinite b = true := this
    rw [hnf] at this; cases this

/-- non-vacuity: `170e-1` at 32 bits is 17 -/
example : toInt .b32 (Buf.ofBytes [0xF0, 0x00, 0x40, 0x22]) ⟨true, 8⟩ = some 17 := by decide +kernel

end Decstr.Props.C11
