import Decstr.Props.C02
import Decstr.Props.C07
import Decstr.Props.C08
import Decstr.Props.C11
import Decstr.Props.C13
import Decstr.Props.C16
import Decstr.Props.C18
