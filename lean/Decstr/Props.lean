import Decstr.Props.C08
import Decstr.Props.C16
