import Decstr.Spec.Basic
/-!
# Model.Binary — `src/binary/{significand,combination,exponent,buf}.rs`, function by function.

A byte buffer `[u8; len]` is the pair `(len, bits)` with `bits < 2^(8·len)`:
`buf[i]` is `(bits >>> 8i) % 256`, `buf[i] |= v` is `bits ||| ((v % 256) <<< 8i)`, `as u8` is `% 256`.
Indexing outside the buffer is an explicit failure (`none`), as a Rust slice index would panic.
-/
namespace Decstr.Model

structure Buf where
  len : Nat
  bits : Nat
deriving Repr, DecidableEq, Inhabited

namespace Buf
def zero (len : Nat) : Buf := ⟨len, 0⟩
def get (b : Buf) (i : Nat) : Nat := (b.bits >>> (8 * i)) % 256
/-- `buf[i] |= v as u8` -/
def orAt (b : Buf) (i v : Nat) : Buf := { b with bits := b.bits ||| ((v % 256) <<< (8 * i)) }
/-- `buf[i] = v as u8` -/
def setAt (b : Buf) (i v : Nat) : Buf :=
  { b with bits := b.bits - (b.get i <<< (8 * i)) + ((v % 256) <<< (8 * i)) }
def ofBytes (l : List Nat) : Buf := ⟨l.length, Spec.ofLeBytes l⟩
def toBytes (b : Buf) : List Nat := Spec.leBytes b.len b.bits
def widthBits (b : Buf) : Nat := 8 * b.len
/-- `precision_digits`: `9k/32 − 2` -/
def precision (b : Buf) : Nat := 9 * b.widthBits / 32 - 2
def trailingDigits (b : Buf) : Nat := b.precision - 1
/-- `trailing_significand_width_bits`: `15k/16 − 10` -/
def trailingBits (b : Buf) : Nat := 15 * b.widthBits / 16 - 10
def combinationBits (b : Buf) : Nat := b.widthBits / 16 + 9
def exponentBits (b : Buf) : Nat := b.combinationBits - 3
end Buf

/-! ## Significand (`significand.rs`) -/

/-- `encode_ascii_declet_to_bcd` composed with `encode_bcd_declet_to_dpd`'s `match`: three ASCII digits
    (least significant first, as `next_ascii_declet_rev` yields them) to a 10-bit DPD group. -/
def bcdOfAscii (a0 a1 a2 : Nat) : Nat := (a0 - 48) ||| ((a1 - 48) <<< 4) ||| ((a2 - 48) <<< 8)

/-- the eight arms of `encode_bcd_declet_to_dpd`, on the 12-bit BCD value -/
def dpdOfBcd (bcd : Nat) : Nat :=
  let D2 := 0x008; let DG := 0x004; let DH := 0x002; let DI := 0x001
  let D1 := 0x080; let DD := 0x040; let DE := 0x020; let DF := 0x010
  let D0 := 0x800; let DA := 0x400; let DB := 0x200; let DC := 0x100
  let abc := ((bcd &&& DA) >>> 1) ||| ((bcd &&& DB) >>> 1) ||| ((bcd &&& DC) >>> 1)
  let sel := bcd &&& (D0 ||| D1 ||| D2)
  if sel = 0 then
    abc ||| (bcd &&& DD) ||| (bcd &&& DE) ||| (bcd &&& DF) ||| (bcd &&& DG) ||| (bcd &&& DH) ||| (bcd &&& DI)
  else if sel = D2 then
    abc ||| (bcd &&& DD) ||| (bcd &&& DE) ||| (bcd &&& DF) ||| 8 ||| (bcd &&& DI)
  else if sel = D1 then
    abc ||| ((bcd &&& DG) <<< 4) ||| ((bcd &&& DH) <<< 4) ||| (bcd &&& DF) ||| 8 ||| 2 ||| (bcd &&& DI)
  else if sel = D0 then
    ((bcd &&& DG) <<< 7) ||| ((bcd &&& DH) <<< 7) ||| ((bcd &&& DC) >>> 1) ||| (bcd &&& DD) ||| (bcd &&& DE) ||| (bcd &&& DF)
      ||| 8 ||| 4 ||| (bcd &&& DI)
  else if sel = (D0 ||| D1) then
    ((bcd &&& DG) <<< 7) ||| ((bcd &&& DH) <<< 7) ||| ((bcd &&& DC) >>> 1) ||| (bcd &&& DF) ||| 8 ||| 4 ||| 2 ||| (bcd &&& DI)
  else if sel = (D1 ||| D2) then
    abc ||| 64 ||| (bcd &&& DF) ||| 8 ||| 4 ||| 2 ||| (bcd &&& DI)
  else if sel = (D0 ||| D2) then
    ((bcd &&& DD) <<< 3) ||| ((bcd &&& DE) <<< 3) ||| ((bcd &&& DC) >>> 1) ||| 32 ||| (bcd &&& DF) ||| 8 ||| 4 ||| 2 ||| (bcd &&& DI)
  else
    ((bcd &&& DC) >>> 1) ||| 64 ||| 32 ||| (bcd &&& DF) ||| 8 ||| 4 ||| 2 ||| (bcd &&& DI)

/-- the tail of `encode_bcd_declet_to_dpd`: two byte writes at a bit offset -/
def writeDpd (b : Buf) (dpd bit : Nat) : Buf :=
  (b.orAt (bit / 8) (dpd <<< (bit % 8))).orAt (bit / 8 + 1) (dpd >>> (8 - bit % 8))

/-- `next_ascii_declet_rev` over the concatenated chunks, as a function of the digits still unread
    (most significant first): the last three digits, least significant first, zero-padded. -/
def nextDeclet (ds : List Nat) : (Nat × Nat × Nat) × List Nat :=
  let n := ds.length
  if n ≥ 3 then ((ds.getD (n - 1) 48, ds.getD (n - 2) 48, ds.getD (n - 3) 48), ds.take (n - 3))
  else if n = 2 then ((ds.getD 1 48, ds.getD 0 48, 48), [])
  else ((ds.getD 0 48, 48, 48), [])

/-- the loop of `encode_significand_trailing_digits`: at most `maxDeclets` declets while digits remain.
    Returns the buffer and the digits not consumed. -/
def encodeDeclets : Nat → List Nat → Nat → Buf → Buf × List Nat
  | 0, ds, _, b => (b, ds)
  | k + 1, ds, bit, b =>
    if ds.isEmpty then (b, ds)
    else
      let ((a0, a1, a2), rest) := nextDeclet ds
      encodeDeclets k rest (bit + 10) (writeDpd b (dpdOfBcd (bcdOfAscii a0 a1 a2)) bit)

/-- `encode_significand_trailing_digits`: `digits` is the concatenation of the chunks (ASCII, most
    significant first, non-empty).  Returns the buffer and the most significant digit as BCD:
    the first digit of the first chunk if any digit is left over, else zero. -/
def encodeSignificand (b : Buf) (digits : List Nat) : Buf × Nat :=
  let (b', rest) := encodeDeclets (b.trailingDigits / 3) digits 0 b
  (b', if rest.isEmpty then 0 else digits.getD 0 48 - 48)

/-- `encode_significand_trailing_digits_repeat` -/
def encodeSignificandRepeat (b : Buf) (digit : Nat) : Buf × Nat :=
  let rec go : Nat → Nat → Buf → Buf
    | 0, _, b => b
    | k + 1, bit, b => go k (bit + 10) (writeDpd b (dpdOfBcd (bcdOfAscii digit digit digit)) bit)
  (go (b.trailingDigits / 3) 0 b, digit - 48)

/-- the eight arms of `decode_dpd_declet_to_bcd` on the (up to 16-bit) value read from two bytes -/
def bcdOfDpd (dpd : Nat) : Nat :=
  let B0 := 1; let B1 := 2; let B2 := 4; let B3 := 8; let B4 := 16; let B5 := 32
  let B6 := 64; let B7 := 128; let B8 := 256; let B9 := 512
  let abc := ((dpd &&& B9) <<< 1) ||| ((dpd &&& B8) <<< 1) ||| ((dpd &&& B7) <<< 1)
  let c := (dpd &&& B7) <<< 1
  if dpd &&& B3 = 0 then
    abc ||| (dpd &&& B6) ||| (dpd &&& B5) ||| (dpd &&& B4) ||| (dpd &&& B2) ||| (dpd &&& B1) ||| (dpd &&& B0)
  else if dpd &&& (B1 ||| B2 ||| B3) = B3 then
    abc ||| (dpd &&& B6) ||| (dpd &&& B5) ||| (dpd &&& B4) ||| 8 ||| (dpd &&& B0)
  else if dpd &&& (B1 ||| B2 ||| B3) = (B1 ||| B3) then
    abc ||| 128 ||| (dpd &&& B4) ||| ((dpd &&& B6) >>> 4) ||| ((dpd &&& B5) >>> 4) ||| (dpd &&& B0)
  else if dpd &&& (B1 ||| B2 ||| B3) = (B2 ||| B3) then
    2048 ||| c ||| (dpd &&& B6) ||| (dpd &&& B5) ||| (dpd &&& B4) ||| ((dpd &&& B9) >>> 7) ||| ((dpd &&& B8) >>> 7) ||| (dpd &&& B0)
  else if dpd &&& (B1 ||| B2 ||| B3 ||| B5 ||| B6) = (B1 ||| B2 ||| B3) then
    2048 ||| c ||| 128 ||| (dpd &&& B4) ||| ((dpd &&& B9) >>> 7) ||| ((dpd &&& B8) >>> 7) ||| (dpd &&& B0)
  else if dpd &&& (B1 ||| B2 ||| B3 ||| B5 ||| B6) = (B1 ||| B2 ||| B3 ||| B6) then
    abc ||| 128 ||| (dpd &&& B4) ||| 8 ||| (dpd &&& B0)
  else if dpd &&& (B1 ||| B2 ||| B3 ||| B5 ||| B6) = (B1 ||| B2 ||| B3 ||| B5) then
    2048 ||| c ||| ((dpd &&& B9) >>> 3) ||| ((dpd &&& B8) >>> 3) ||| (dpd &&& B4) ||| 8 ||| (dpd &&& B0)
  else
    2048 ||| c ||| 128 ||| (dpd &&& B4) ||| 8 ||| (dpd &&& B0)

/-- `decode_bcd_declet_to_ascii`: most significant digit first -/
def asciiOfBcd (bcd : Nat) : List Nat :=
  [((bcd &&& 0xF00) >>> 8) + 48, ((bcd &&& 0x0F0) >>> 4) + 48, (bcd &&& 0x00F) + 48]

/-- read 10 bits at `bit` the way `decode_dpd_declet_to_bcd` does (a `u16` built from two bytes) -/
def readDpd (b : Buf) (bit : Nat) : Nat :=
  (((b.get (bit / 8)) >>> (bit % 8)) ||| ((b.get (bit / 8 + 1)) <<< (8 - bit % 8))) % 65536

/-- `decode_significand_trailing_declets`: the declets from most to least significant, each as three ASCII digits -/
def decodeDeclets (b : Buf) : List (List Nat) :=
  let rec go : Nat → Nat → List (List Nat)
    | 0, _ => []
    | k + 1, bit => asciiOfBcd (bcdOfDpd (readDpd b (bit - 10))) :: go k (bit - 10)
  go (b.trailingBits / 10) b.trailingBits

/-! ## Exponent arithmetic (`exponent.rs`) -/

/-- `emax = 3 · 2^(k/16 + 3)` -/
def emaxOf (widthBits : Nat) : Int := 3 * 2 ^ (widthBits / 16 + 3)
def biasOf (widthBits precision : Nat) : Int := emaxOf widthBits + precision - 2

/-! ## Combination field (`combination.rs`) -/

def SIGN_NEGATIVE := 0x80
def INFINITY := 0x78
def INFINITY_COMBINATION := 0x7C
def SIGNALING := 0x02
def NAN := 0x7C
def NAN_COMBINATION := 0x7E
def FINITE_COMBINATION := 0x78

def Buf.last (b : Buf) : Nat := b.get (b.len - 1)

def isFinite (b : Buf) : Bool := b.last &&& FINITE_COMBINATION != FINITE_COMBINATION
def isInfinite (b : Buf) : Bool := b.last &&& INFINITY_COMBINATION == INFINITY
def isNan (b : Buf) : Bool := b.last &&& NAN == NAN
def isQuietNan (b : Buf) : Bool := b.last &&& NAN_COMBINATION == NAN
def isSignalingNan (b : Buf) : Bool := b.last &&& NAN_COMBINATION == NAN_COMBINATION
def isSignNegative (b : Buf) : Bool := b.last &&& SIGN_NEGATIVE == SIGN_NEGATIVE

def encodeInfinity (b : Buf) (neg : Bool) : Buf :=
  b.setAt (b.len - 1) (if neg then INFINITY ||| SIGN_NEGATIVE else INFINITY)

def encodeNan (b : Buf) (neg signaling : Bool) : Buf :=
  b.setAt (b.len - 1) (NAN ||| (if neg then SIGN_NEGATIVE else 0) ||| (if signaling then SIGNALING else 0))

/-- `most_significant_exponent_offset` -/
def msExponentOffset (exponentBits : Nat) : Nat × Nat :=
  if exponentBits % 8 = 0 then (8, exponentBits / 8 - 1) else (exponentBits % 8, exponentBits / 8)

/-- byte `i` of the little-endian exponent; reads past the end give zero (the `Index` impls) -/
def expByte (e : Nat) (i : Nat) : Nat := (e >>> (8 * i)) % 256

/-- the two loops of `encode_combination_finite` that write the exponent continuation -/
def writeExpAligned (e : Nat) : Nat → Nat → Nat → Buf → Buf × Nat × Nat
  | 0, di, ei, b => (b, di, ei)
  | k + 1, di, ei, b => writeExpAligned e k (di + 1) (ei + 1) (b.setAt di (expByte e ei))

def writeExpShifted (e s : Nat) : Nat → Nat → Nat → Buf → Buf × Nat × Nat
  | 0, di, ei, b => (b, di, ei)
  | k + 1, di, ei, b =>
    writeExpShifted e s k (di + 1) (ei + 1)
      ((b.orAt di (expByte e ei <<< s)).orAt (di + 1) (expByte e ei >>> (8 - s)))

/-- `encode_combination_finite`, given the biased exponent `e ≥ 0` and the most significant digit as BCD -/
def encodeCombinationFinite (b : Buf) (neg : Bool) (e : Nat) (msd : Nat) : Buf :=
  let bitIndex := b.trailingBits
  let shift := bitIndex % 8
  let di := bitIndex / 8
  let maxDi := b.len - 1
  let (b, di, ei) :=
    if shift = 0 then writeExpAligned e (maxDi - di) di 0 b
    else writeExpShifted e shift (maxDi - di) di 0 b
  let b := b.orAt di (expByte e ei <<< shift)
  let (off, idx) := msExponentOffset b.exponentBits
  let mse := expByte e idx >>> (off - 2)
  let combination :=
    if msd &&& 8 = 0 then
      ((mse &&& 2) <<< 5) ||| ((mse &&& 1) <<< 5) ||| ((msd &&& 4) <<< 2) ||| ((msd &&& 2) <<< 2) ||| ((msd &&& 1) <<< 2)
    else
      64 ||| 32 ||| ((mse &&& 2) <<< 3) ||| ((mse &&& 1) <<< 3) ||| ((msd &&& 1) <<< 2)
  let b := b.setAt di ((b.get di &&& 0x83) ||| combination)
  if neg then b.orAt di SIGN_NEGATIVE else b

/-- the bytes the two iterator closures of `decode_combination_finite` yield, as a little-endian number.
    `mse` is the pair of most significant exponent bits already shifted into place. -/
def readExpAligned (b : Buf) (mse : Nat) : Nat → Nat → Nat
  | 0, _ => 0
  | k + 1, di =>
    let maxDi := b.len - 1
    (if di < maxDi then b.get di else ((b.get di &&& 3) ||| mse) % 256) + 256 * readExpAligned b mse k (di + 1)

def readExpShifted (b : Buf) (mse s maxEi : Nat) : Nat → Nat → Nat → Nat
  | 0, _, _ => 0
  | k + 1, di, ei =>
    let maxDi := b.len - 1
    if di + 1 < maxDi then
      (((b.get di >>> s) ||| (b.get (di + 1) <<< (8 - s))) % 256) + 256 * readExpShifted b mse s maxEi k (di + 1) (ei + 1)
    else if di + 1 = maxDi then
      let e1 := ((b.get (di + 1) &&& 3) <<< (8 - s)) % 256
      let e1 := if ei = maxEi then e1 ||| mse else e1
      (((b.get di >>> s) ||| e1) % 256) + 256 * readExpShifted b mse s maxEi k (di + 1) (ei + 1)
    else if ei = maxEi then
      mse % 256                      -- final byte; the iterator then ends (ei ≠ maxEi afterwards)
    else 0

/-- `decode_combination_finite`: (biased exponent as an unsigned number, most significant digit as BCD) -/
def decodeCombinationFinite (b : Buf) : Nat × Nat :=
  let bitIndex := b.trailingBits
  let shift := bitIndex % 8
  let di := bitIndex / 8
  let maxDi := b.len - 1
  let (off, maxEi) := msExponentOffset b.exponentBits
  let c := b.get maxDi
  let (mse, msd) :=
    if c &&& 0x60 = 0x60 then
      ((((c &&& 0x10) >>> 3) ||| ((c &&& 0x08) >>> 3)), 8 ||| ((c &&& 0x04) >>> 2))
    else
      ((((c &&& 0x40) >>> 5) ||| ((c &&& 0x20) >>> 5)), ((c &&& 0x10) >>> 2) ||| ((c &&& 0x08) >>> 2) ||| ((c &&& 0x04) >>> 2))
  let mse := (mse <<< (off - 2)) % 256
  let biased :=
    if shift = 0 then readExpAligned b mse (maxDi - di + 1) di
    else readExpShifted b mse shift maxEi (maxDi - di + 2) di 0
  (biased, msd)

/-! ## Width selection (`buf.rs`) -/

/-- `BinaryExponentMath::log2` on a non-negative number: position of the highest set bit, 0 for 0 -/
def log2Floor (x : Nat) : Nat := x.log2

def widthForExponentCalc (absE : Nat) : Nat :=
  let w := 16 * ((log2Floor (absE / 3) / log2Floor 2) - 3)
  if w % 32 = 0 then w + 32 else w + 64 - w % 32

/-- `minimum_storage_width_bits_for_integer_exponent`; `e` is the exponent (for `i32` types already saturated) -/
def widthForExponent (e : Int) : Nat :=
  if -101 ≤ e ∧ e ≤ 90 then 32
  else if -398 ≤ e ∧ e ≤ 369 then 64
  else if -1559 ≤ e ∧ e ≤ 1512 then 96
  else if -6176 ≤ e ∧ e ≤ 6111 then 128
  else if -24617 ≤ e ∧ e ≤ 24534 then 160
  else widthForExponentCalc e.natAbs

def widthForDigitsCalc (d : Nat) : Nat :=
  let w := (d + 2) * 32 / 9 + 1
  if w % 32 = 0 then w else w + 32 - w % 32

/-- `minimum_storage_width_bits_for_precision_digits` -/
def widthForDigits (d : Nat) : Nat :=
  if d ≤ 7 then 32 else if d ≤ 16 then 64 else if d ≤ 25 then 96 else if d ≤ 34 then 128 else if d ≤ 43 then 160
  else widthForDigitsCalc d

/-- `try_with_at_least_precision`: width in bytes requested from the buffer type -/
def bytesForPrecision (d : Nat) (e : Option Int) : Nat :=
  match e with
  | some e => max (widthForDigits d / 8) (widthForExponent e / 8)
  | none => widthForDigits d / 8

end Decstr.Model
