import Decstr.Model.Exec
/-!
# Model.ExecText — the checked model of the text buffers and parsers (`text.rs`, `text/{finite,nan,infinity}.rs`,
`text/buf/{str,array,vec}.rs`).  Conventions as in `Model/Exec.lean`.

Sites.
* `ArrayTextBuf` (text/buf/array.rs:47, :52, :60, :72, :86, :97, :105): every store is `self.buf[self.len] = b` into a
  `[u8; N]` — index out of bounds when the array is full.  `remaining_capacity` is array.rs:35 `N - self.len`.
* `StrTextBuf` (text/buf/str.rs:58, :67): `debug_assert_eq!(_digit, self.ascii[self.index])` and
  `debug_assert_eq!(b'.', self.ascii[self.index])` — debug profile only; the index expression itself panics when the index
  is past the end of the borrowed text.
* `VecTextBuf`: `Vec::push` only.
* `InfinityParser` (infinity.rs:39, :73) and `NanBuf` (nan.rs:200, :207, :212, :227, :236): `&self.expecting[1..]`,
  `&self.expecting[2..]` — slice start past the end.  nan.rs:76 `self.payload.as_mut().expect("missing buffer")` is
  guarded by `self.payload.is_some()` in the same match arm.
* `DecimalParser::parse_ascii` (text.rs:214): `ascii[0]` / `&ascii[1..]` under `!ascii.is_empty()`;
  `buf.take().expect("missing buffer")` (text.rs:228, :247, :261, :275) — the buffer is taken exactly when the state
  leaves `AtStart`, so it is always present there (the model's `atStart` constructor carries it); the bytes handled
  before a sub-parser exists are stored **without** a capacity test.
* Not modelled (cannot fail): `str::from_utf8(self.expecting.get(0..1).unwrap_or(b"")).unwrap()` in the error paths of
  `InfinityParser` (infinity.rs:80, :99) and `NanParser::end` (nan.rs:143) — a sub-slice of an ASCII literal;
  `ArrayTextBuf::get_ascii` `&self.buf[..self.len]` (array.rs:29) — `len ≤ N` is the invariant `Fits buf 0` of the proofs;
  `error.take().unwrap_or_else(..)` is total.  `end()` of the three parsers has no site and is the pure `finish`.
-/
namespace Decstr.Model.Exec
open Decstr.Model
open Decstr.Spec (isDigit)

/-! ## text buffers -/

/-- the store `self.buf[self.len] = b` of `ArrayTextBuf`; nothing to check for the other two buffers -/
def guardPut (site : String) (b : TextBuf) : Chk Unit :=
  match b.kind with
  | .array cap => req site (b.text.length < cap)
  | _ => .ok ()

/-- `debug_assert_eq!(expected, self.ascii[self.index])` of `StrTextBuf` -/
def dbgStr (checks : Bool) (site : String) (b : TextBuf) (expected : Nat) : Chk Unit :=
  match b.kind with
  | .str =>
    if checks then do
      req (site ++ " self.ascii[self.index]") (b.idx < b.text.length)
      req (site ++ " debug_assert_eq!") (b.text.getD b.idx 0 = expected)
    else .ok ()
  | _ => .ok ()

/-- `remaining_capacity`: array.rs:35 `Some(N - self.len)` -/
def remainingC (checks : Bool) (b : TextBuf) : Chk (Option Nat) :=
  match b.kind with
  | .array cap => do
    let r ← subUsize checks "text/buf/array.rs:35 N - self.len" cap b.text.length
    .ok (some r)
  | _ => .ok none

/-- `advance_significand` (array.rs:47) -/
def advanceSignificandC (b : TextBuf) (c : Nat) : Chk TextBuf := do
  guardPut "text/buf/array.rs:47 self.buf[self.len] = b" b
  .ok (b.advanceSignificand c)

/-- `push_significand_digit` (array.rs:52, str.rs:58) -/
def pushSignificandDigitC (checks : Bool) (b : TextBuf) (s : PSignificand) (d : Nat) : Chk (TextBuf × PSignificand) := do
  dbgStr checks "text/buf/str.rs:58" b d
  guardPut "text/buf/array.rs:52 self.buf[self.len] = digit" b
  .ok (b.pushSignificandDigit s d)

/-- `push_significand_decimal_point` (array.rs:60, str.rs:67) -/
def pushDecimalPointC (checks : Bool) (b : TextBuf) (s : PSignificand) : Chk (TextBuf × PSignificand) := do
  dbgStr checks "text/buf/str.rs:67" b 46
  guardPut "text/buf/array.rs:60 self.buf[self.len] = b'.'" b
  .ok (b.pushDecimalPoint s)

/-- `significand_is_negative` (array.rs:72) -/
def significandNegativeC (b : TextBuf) (s : PSignificand) : Chk (TextBuf × PSignificand) := do
  guardPut "text/buf/array.rs:72 self.buf[self.len] = b'-'" b
  .ok (b.significandNegative s)

/-- `begin_exponent` (array.rs:86) -/
def beginExponentC (b : TextBuf) : Chk (TextBuf × PExponent) := do
  guardPut "text/buf/array.rs:86 self.buf[self.len] = b'e'" b
  .ok b.beginExponent

/-- `push_exponent_digit` (array.rs:97) -/
def pushExponentDigitC (b : TextBuf) (e : PExponent) (d : Nat) : Chk (TextBuf × PExponent) := do
  guardPut "text/buf/array.rs:97 self.buf[self.len] = digit" b
  .ok (b.pushExponentDigit e d)

/-- `exponent_is_negative` (array.rs:105) -/
def exponentNegativeC (b : TextBuf) (e : PExponent) : Chk (TextBuf × PExponent) := do
  guardPut "text/buf/array.rs:105 self.buf[self.len] = b'-'" b
  .ok (b.exponentNegative e)

/-! ## FiniteParser (`text/finite.rs`) -/

namespace FiniteParserC

def pushSignificandDigit (checks : Bool) (p : FiniteParser) (d : Nat) : Chk FiniteParser := do
  let _ ← pushSignificandDigitC checks p.buf p.sig d
  .ok (p.pushSignificandDigit d)

def significandNegative (p : FiniteParser) : Chk FiniteParser := do
  let _ ← significandNegativeC p.buf p.sig
  .ok p.significandNegative

/-- `significand_is_positive`: the array and vector buffers store nothing, the string buffer only moves its index -/
def significandPositive (p : FiniteParser) : Chk FiniteParser := .ok p.significandPositive

def pushDecimalPoint (checks : Bool) (p : FiniteParser) : Chk FiniteParser := do
  let _ ← pushDecimalPointC checks p.buf p.sig
  .ok p.pushDecimalPoint

def beginExponent (p : FiniteParser) : Chk FiniteParser := do
  let _ ← beginExponentC p.buf
  .ok p.beginExponent

/-- one byte of `parse_ascii` (finite.rs:138–195); the result is the parser or the `ParseError` it returns -/
def step (checks : Bool) (p : FiniteParser) (c : Nat) : Chk (Except ParseErr FiniteParser) :=
  match p.exp with
  | none =>
    if isDigit c then (pushSignificandDigit checks p c).map .ok
    else if c = 45 && !p.hasSign && !p.hasDigits && !p.hasDecimal then (significandNegative p).map .ok
    else if c = 46 && !p.hasDecimal then (pushDecimalPoint checks p).map .ok
    else if (c = 101 || c = 69) && p.hasDigits then (beginExponent p).map .ok
    else if c = 43 && !p.hasSign && !p.hasDigits && !p.hasDecimal then (significandPositive p).map .ok
    else .ok (.error (.char c))
  | some e =>
    if isDigit c then do
      let _ ← pushExponentDigitC p.buf e c
      .ok (p.step c)
    else if c = 45 && !p.hasSign && !p.hasDigits then do
      let _ ← exponentNegativeC p.buf e
      .ok (p.step c)
    else .ok (p.step c)

def steps (checks : Bool) (p : FiniteParser) : List Nat → Chk (Except ParseErr FiniteParser)
  | [] => .ok (.ok p)
  | c :: cs =>
    match step checks p c with
    | .error s => .error s
    | .ok (.error e) => .ok (.error e)
    | .ok (.ok p') => steps checks p' cs

/-- `parse_ascii` (finite.rs:127): the capacity test, then the bytes -/
def parseAscii (checks : Bool) (p : FiniteParser) (frag : List Nat) : Chk (Except ParseErr FiniteParser) := do
  let r ← remainingC checks p.buf
  match r with
  | some r => if r < frag.length then .ok (.error .bufferTooSmall) else steps checks p frag
  | none => steps checks p frag

end FiniteParserC

/-! ## InfinityParser (`text/infinity.rs`) -/

namespace InfinityParserC

/-- `advance` (infinity.rs:38): infinity.rs:39 `&self.expecting[1..]`, then the store -/
def advance (p : InfinityParser) (c : Nat) : Chk InfinityParser := do
  req "text/infinity.rs:39 &self.expecting[1..]" (1 ≤ p.expecting.length)
  let _ ← advanceSignificandC p.buf c
  .ok (p.advance c)

/-- one byte of `parse_ascii` (infinity.rs:59–84) -/
def step (p : InfinityParser) (c : Nat) : Chk (Except ParseErr InfinityParser) :=
  if c = 45 && p.atStart then do
    let _ ← advanceSignificandC p.buf c
    .ok (p.step c)
  else if c = 43 && p.atStart then do
    let _ ← advanceSignificandC p.buf c
    .ok (p.step c)
  else match p.expecting with
    | e :: _ =>
      if eqIgnoreCase e c then do
        req "text/infinity.rs:73 &self.expecting[1..]" (1 ≤ p.expecting.length)
        let _ ← advanceSignificandC p.buf c
        .ok (p.step c)
      else .ok (p.step c)
    | [] => .ok (p.step c)

def steps (p : InfinityParser) : List Nat → Chk (Except ParseErr InfinityParser)
  | [] => .ok (.ok p)
  | c :: cs =>
    match step p c with
    | .error s => .error s
    | .ok (.error e) => .ok (.error e)
    | .ok (.ok p') => steps p' cs

def parseAscii (checks : Bool) (p : InfinityParser) (frag : List Nat) : Chk (Except ParseErr InfinityParser) := do
  let r ← remainingC checks p.buf
  match r with
  | some r => if r < frag.length then .ok (.error .bufferTooSmall) else steps p frag
  | none => steps p frag

end InfinityParserC

/-! ## NanParser (`text/nan.rs`) -/

namespace NanParserC

def nanPositive (p : NanParser) (c : Nat) : Chk NanParser := do
  let _ ← advanceSignificandC p.buf c
  .ok (p.nanPositive c)
def nanNegative (p : NanParser) (c : Nat) : Chk NanParser := do
  let _ ← advanceSignificandC p.buf c
  .ok (p.nanNegative c)
/-- `nan_is_quiet` (nan.rs:197): nan.rs:200 `&self.expecting[2..]` -/
def nanQuiet (p : NanParser) (c : Nat) : Chk NanParser := do
  req "text/nan.rs:200 &self.expecting[2..]" (2 ≤ p.expecting.length)
  let _ ← advanceSignificandC p.buf c
  .ok (p.nanQuiet c)
/-- `nan_is_signaling` (nan.rs:204): nan.rs:207 `&self.expecting[1..]` -/
def nanSignaling (p : NanParser) (c : Nat) : Chk NanParser := do
  req "text/nan.rs:207 &self.expecting[1..]" (1 ≤ p.expecting.length)
  let _ ← advanceSignificandC p.buf c
  .ok (p.nanSignaling c)

/-- one byte of `parse_ascii` (nan.rs:71–108), arm by arm -/
def step (checks : Bool) (p : NanParser) (c : Nat) : Chk (Except ParseErr NanParser) :=
  if isDigit c && p.payload.isSome && p.isExpecting 41 then
    match p.payload with
    | some s => do
      let _ ← pushSignificandDigitC checks p.buf s c
      .ok (p.step c)
    | none => .error "text/nan.rs:76 expect(\"missing buffer\")"
  else if c = 45 && p.atStart then (nanNegative p c).map .ok
  else if c = 43 && p.atStart then (nanPositive p c).map .ok
  else if (c = 110 || c = 78) && p.atStart then (nanQuiet p c).map .ok
  else if (c = 115 || c = 83) && p.atStart then (nanSignaling p c).map .ok
  else if c = 40 && p.isExpecting 40 then do
    req "text/nan.rs:212 &self.expecting[1..]" (1 ≤ p.expecting.length)
    let _ ← advanceSignificandC p.buf c
    .ok (p.step c)
  else if c = 41 && p.isExpecting 41 then do
    req "text/nan.rs:227 &self.expecting[1..]" (1 ≤ p.expecting.length)
    let _ ← advanceSignificandC p.buf c
    .ok (p.step c)
  else if p.isExpecting c then do
    req "text/nan.rs:236 &self.expecting[1..]" (1 ≤ p.expecting.length)
    let _ ← advanceSignificandC p.buf c
    .ok (p.step c)
  else .ok (p.step c)

def steps (checks : Bool) (p : NanParser) : List Nat → Chk (Except ParseErr NanParser)
  | [] => .ok (.ok p)
  | c :: cs =>
    match step checks p c with
    | .error s => .error s
    | .ok (.error e) => .ok (.error e)
    | .ok (.ok p') => steps checks p' cs

def parseAscii (checks : Bool) (p : NanParser) (frag : List Nat) : Chk (Except ParseErr NanParser) := do
  let r ← remainingC checks p.buf
  match r with
  | some r => if r < frag.length then .ok (.error .bufferTooSmall) else steps checks p frag
  | none => steps checks p frag

end NanParserC

/-! ## DecimalParser (`text.rs`) -/

namespace DecimalParserC

/-- the `AtStart` arm of `parse_ascii` (text.rs:221–294), one byte: the pushes here are made **without** a capacity test -/
def startStep (checks : Bool) (b : TextBuf) (neg : Option Bool) (c : Nat) : Chk (Except ParseErr DecimalParser) :=
  if isDigit c then do
    let f := FiniteParser.begin b
    let f ← (match neg with
      | some false => FiniteParserC.significandPositive f
      | some true => FiniteParserC.significandNegative f
      | none => .ok f)
    let f ← FiniteParserC.pushSignificandDigit checks f c
    .ok (.ok (.finite f))
  else if c = 45 && neg.isNone then .ok (.ok (.atStart b (some true)))
  else if c = 43 && neg.isNone then .ok (.ok (.atStart b (some false)))
  else if c = 115 || c = 83 then do
    let n : NanParser := { buf := b }
    let n ← (match neg with
      | some false => NanParserC.nanPositive n 43
      | some true => NanParserC.nanNegative n 45
      | none => .ok n)
    let n ← NanParserC.nanSignaling n c
    .ok (.ok (.nan n))
  else if c = 110 || c = 78 then do
    let n : NanParser := { buf := b }
    let n ← (match neg with
      | some false => NanParserC.nanPositive n 43
      | some true => NanParserC.nanNegative n 45
      | none => .ok n)
    let n ← NanParserC.nanQuiet n c
    .ok (.ok (.nan n))
  else if c = 105 || c = 73 then do
    let i : InfinityParser := { buf := b }
    let i := match neg with
      | some n => { i with neg := n }
      | none => i
    let i ← InfinityParserC.advance i c
    .ok (.ok (.infinity i))
  else .ok (.error (.char c))

/-- `parse_ascii` on one fragment (text.rs:214) -/
def parseAscii (checks : Bool) : DecimalParser → List Nat → Chk (Except ParseErr DecimalParser)
  | .failed e, _ => .ok (.error e)
  | p, [] => .ok (.ok p)
  | .finite f, cs => (FiniteParserC.parseAscii checks f cs).map (·.map .finite)
  | .infinity i, cs => (InfinityParserC.parseAscii checks i cs).map (·.map .infinity)
  | .nan n, cs => (NanParserC.parseAscii checks n cs).map (·.map .nan)
  | .atStart b neg, c :: cs =>
    match startStep checks b neg c with
    | .error s => .error s
    | .ok (.error e) => .ok (.error e)
    | .ok (.ok p') => parseAscii checks p' cs
termination_by _ cs => cs.length
decreasing_by all_goals simp_wf

end DecimalParserC

/-- `write!(parser, "{}", f)` (see `Model.feed`) with the checked `parse_ascii` -/
def feedC (checks : Bool) (p : DecimalParser) (frags : List (List Nat)) (fault : Fault) : Nat → Chk (DecimalParser × Bool)
  | i =>
    match frags with
    | [] => .ok (p, fault == .failAt i)
    | f :: rest =>
      if fault == .failAt i then .ok (p, true)
      else
        match p with
        | .failed e => if fault == .swallow then feedC checks (.failed e) rest fault (i + 1) else .ok (.failed e, true)
        | _ =>
          match DecimalParserC.parseAscii checks p f with
          | .error s => .error s
          | .ok (.ok p') => feedC checks p' rest fault (i + 1)
          | .ok (.error e) => if fault == .swallow then feedC checks (.failed e) rest fault (i + 1) else .ok (.failed e, true)

/-- `DecimalParser::parse_str` (text.rs:192) -/
def parseStrC (checks : Bool) (input : List Nat) : Chk (Except ParseErr Parsed) :=
  match DecimalParserC.parseAscii checks (DecimalParser.begin (TextBuf.new .str input)) input with
  | .error s => .error s
  | .ok (.ok p) => .ok p.finish
  | .ok (.error e) => .ok (.error e)

/-- `decimal_from_fmt` up to `parser.end()` (from_str.rs:28) -/
def parseFmtC (checks : Bool) (kind : BufKind) (frags : List (List Nat)) (fault : Fault) : Chk (Except ParseErr Parsed) :=
  match feedC checks (DecimalParser.begin (TextBuf.new kind [])) frags fault 0 with
  | .error s => .error s
  | .ok (.failed e, true) => .ok (.error e)
  | .ok (_, true) => .ok (.error .source)
  | .ok (p, false) => .ok p.finish

/-- `FiniteParser::parse_str` (finite.rs:31) -/
def parseFiniteStrC (checks : Bool) (input : List Nat) : Chk (Except ParseErr Parsed) :=
  match FiniteParserC.parseAscii checks (FiniteParser.begin (TextBuf.new .str input)) input with
  | .error s => .error s
  | .ok (.ok p) => .ok (p.finish.map .finite)
  | .ok (.error e) => .ok (.error e)

end Decstr.Model.Exec
