import Decstr.Model.Convert
/-!
# Model.Api — the model's answer to every request of the line protocol (see `Decstr/Driver.lean`)
-/
namespace Decstr.Model
open Decstr.Spec (Ty PAns OAns ErrFacts)

def errFacts : Err → ErrFacts
  | .parse (.char c) => ⟨"char", c, 0, 0⟩
  | .parse .endOfInput => ⟨"end", 0, 0, 0⟩
  | .parse .bufferTooSmall => ⟨"buffer", 0, 0, 0⟩
  | .parse .source => ⟨"source", 0, 0, 0⟩
  | .overflow (.wouldOverflow m r) => ⟨"overflow", m, r, 0⟩
  | .overflow (.exponentOutOfRange m) => ⟨"expoverflow", m, 0, 0⟩
  | .overflow (.sizeMismatch g r) => ⟨"size", g, r, 0⟩

def pans : Except Err Buf → PAns
  | .ok b => .ok b.toBytes
  | .error e => .err (errFacts e)

def resPAns : Res → PAns
  | .ok b => .ok b.toBytes
  | .none => .none
  | .panic => .panic

/-- answers of the `TryFrom<int|float>` impls -/
def pansT : Option (Except OverflowErr Buf) → PAns
  | none => .panic
  | some r => pans (liftOverflow r)

def oans : Option Int → OAns
  | some v => .some v
  | none => .none

def parseFault (s : String) : Fault :=
  if s == "swallow" then .swallow
  else if s.startsWith "fail:" then .failAt ((s.drop 5).toNat?.getD 0)
  else .none

/-- first token of the printed text after the sign -/
def firstTok (t : List Nat) : Bool × String :=
  let neg := t.head? == some 45
  let r := if neg then t.drop 1 else t
  (neg, match r with
    | 105 :: _ => "inf"
    | 110 :: _ => "nan"
    | 115 :: _ => "snan"
    | c :: _ => if Spec.isDigit c then "d" else "other"
    | [] => "other")

structure Io where
  unhex : String → Option (List Nat)
  hex : List Nat → String
  showPAns : PAns → String
  showOAns : OAns → String
  showFAns : Nat → OAns → String
  parseFrags : String → Option (List (List Nat))
  parseInt : String → Option Int
  hexNat : String → Option Nat

def b2s (b : Bool) : String := if b then "1" else "0"

/-- The model's answer (as protocol tokens) to a request; `none` = not modelled / malformed. -/
def answerWith (io : Io) (req : List String) : Option (List String) :=
  match req with
  | ["parse_str", t, txt] => do
      let T ← Ty.ofName t; let txt ← io.unhex txt
      match tryParseStr T txt with
      | .ok b => pure [io.showPAns (.ok b.toBytes), io.hex (toText T b)]
      | .error e => pure [io.showPAns (.err (errFacts e))]
  | ["parse_fmt", t, _cap, frs, fault] => do
      let T ← Ty.ofName t; let frs ← io.parseFrags frs
      pure [io.showPAns (pans (tryParse T frs (parseFault fault)))]
  | ["format", t, b] => do
      let T ← Ty.ofName t; let b ← io.unhex b
      pure ["ok", io.hex (toText T (Buf.ofBytes b)), "1"]
  | ["roundtrip", t, b] => do
      let T ← Ty.ofName t; let b ← io.unhex b
      let txt := toText T (Buf.ofBytes b)
      let back := tryParseStr T txt
      let stable := match back with
        | .ok b2 => (match tryParseStr T (toText T b2) with | .ok b3 => b3.toBytes == b2.toBytes | _ => false)
        | _ => true
      pure ["ok", io.hex txt, io.showPAns (pans back), b2s stable]
  | ["classify", t, b] => do
      let T ← Ty.ofName t; let b ← io.unhex b
      let buf := Buf.ofBytes b
      let (neg, tok) := firstTok (toText T buf)
      pure ["cls", String.join ([isSignNegative buf, isFinite buf, isInfinite buf, isNan buf, isQuietNan buf, isSignalingNan buf].map b2s),
            b2s neg, tok]
  | ["to_int", t, b, i] => do
      let T ← Ty.ofName t; let b ← io.unhex b; let I ← Spec.IntTy.ofName i
      pure [io.showOAns (oans (toInt T (Buf.ofBytes b) I))]
  | ["from_int", t, i, v] => do
      let T ← Ty.ofName t; let I ← Spec.IntTy.ofName i; let v ← io.parseInt v
      match fromInt T I v with
      | .ok b => pure [io.showPAns (.ok b.toBytes), io.hex (toText T b), io.showOAns (oans (toInt T b I))]
      | r => pure [io.showPAns (resPAns r)]
  | ["from_int@t", t, i, v] => do
      let T ← Ty.ofName t; let I ← Spec.IntTy.ofName i; let v ← io.parseInt v
      match fromIntT T I v with
      | some (.ok b) => pure [io.showPAns (.ok b.toBytes), io.hex (toText T b), io.showOAns (oans (toInt T b I))]
      | r => pure [io.showPAns (pansT r)]
  | ["to_float", t, b, f] => do
      let T ← Ty.ofName t; let b ← io.unhex b; let B ← Spec.BinFmt.ofName f
      let r := toFloat (Buf.ofBytes b) B
      -- `Bitstring32::to_f64` is the one infallible decimal-to-float conversion: a failure there is a panic
      if T == .b32 && B.prec == 53 && r.isNone then pure ["panic"]
      else pure [io.showFAns (B.width / 4) (oans (r.map Int.ofNat))]
  | ["from_float", t, f, bits, ryu] => do
      let T ← Ty.ofName t; let B ← Spec.BinFmt.ofName f; let bits ← io.hexNat bits; let ryu ← io.unhex ryu
      match fromFloat T B bits ryu with
      | .ok b =>
        let back := toFloat b B
        pure [io.showPAns (.ok b.toBytes), io.hex (toText T b),
              if T == .b32 && B.prec == 53 && back.isNone then "panic" else io.showFAns (B.width / 4) (oans (back.map Int.ofNat))]
      | r => pure [io.showPAns (resPAns r)]
  | ["from_float@t", t, f, bits, ryu] => do
      let T ← Ty.ofName t; let B ← Spec.BinFmt.ofName f; let bits ← io.hexNat bits; let ryu ← io.unhex ryu
      match fromFloatT T B bits ryu with
      | some (.ok b) =>
        let back := toFloat b B
        pure [io.showPAns (.ok b.toBytes), io.hex (toText T b),
              if T == .b32 && B.prec == 53 && back.isNone then "panic" else io.showFAns (B.width / 4) (oans (back.map Int.ofNat))]
      | r => pure [io.showPAns (pansT r)]
  | ["bytes", _, b] => do
      let b ← io.unhex b
      pure ["api", io.hex (Buf.ofBytes b).toBytes, io.hex b.reverse, io.hex b.reverse]
  | ["try_le", t, b] => do
      let T ← Ty.ofName t; let b ← io.unhex b
      pure [io.showPAns (pans (liftOverflow (tryFromLeBytes T b)))]
  | ["try_le_fill", t, len, _] => do
      let T ← Ty.ofName t; let len ← len.toNat?
      match tryFromLeLen T len with
      | .ok () => pure ["okfill", toString len, "1"]
      | .error e => pure [io.showPAns (.err (errFacts (.overflow e)))]
  | ["consts", t] => do
      let T ← Ty.ofName t
      let n ← T.fixedN
      let f : Spec.Fmt := ⟨n⟩
      let mx := (encodeMax (4 * n) false).toBytes
      let mn := (encodeMax (4 * n) true).toBytes
      let mp := (encodeMin (4 * n) false).toBytes
      pure ["consts", io.hex mx, io.hex mn, io.hex mp, io.hex mx, io.hex mn, io.hex mp,
            toString f.p, toString f.qmin, toString f.qmax]
  | _ => none

end Decstr.Model
