import Decstr.Spec.Judge
/-!
# Model.Api — the model's answer to every request of the line protocol
-/
namespace Decstr.Model

/-- The model's answer (as protocol tokens) to a request; `none` = operation not modelled. -/
def answer (_req : List String) : Option (List String) := none

end Decstr.Model
