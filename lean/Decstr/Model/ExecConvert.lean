import Decstr.Model.Exec
/-!
# Model.ExecConvert — the checked model of `convert.rs`, `convert/from_int.rs` (decimal → integer), `binary.rs`
(`encode_max`/`encode_min`) and the byte-level constructors.  Conventions as in `Model/Exec.lean`.

Not modelled in `decimal_to_fmt` (cannot fail): `&declet[idx..]` (convert.rs:280, :538, :567) with `idx ≤ 3` counted over
a `[u8; 3]`; `str::from_utf8(digits).map_err(|_| fmt::Error)?` (convert.rs:476, :489, :579) — an `Err`, not a panic, and
the bytes are BCD nibbles plus `b'0'` (at most 63), i.e. ASCII; writes into the caller's `fmt::Write` only fail if the
caller's writer fails.  `saturating_*` and `unsigned_abs` never panic.
-/
namespace Decstr.Model.Exec
open Decstr.Model
open Decstr.Spec (Ty)

/-! ## `decimal_to_fmt` (convert.rs:209) -/

/-- `write_decimal_digits` (convert.rs:496).  Sites: convert.rs:517 `total_integer_digits - *written`,
    convert.rs:519 `&digits[..decimal_point]`, convert.rs:521 `&digits[decimal_point..]`. -/
def writeDecimalDigitsC (checks : Bool) (digits : List Nat) (total written : Nat) : Chk (List Nat × Nat × Bool) :=
  if written + digits.length ≤ total then .ok (digits, written + digits.length, false)
  else if written = total then .ok (46 :: digits, written + digits.length, true)
  else do
    let dp ← subUsize checks "convert.rs:517 total_integer_digits - *written" total written
    req "convert.rs:519 &digits[..decimal_point]" (dp ≤ digits.length)
    .ok (digits.take dp ++ [46] ++ digits.drop dp, written + digits.length, true)

/-- the `±123.456` arm (convert.rs:272–302): the partial declet, then
    `while !written_decimal_point { declets.next().expect("ran out of digits before the decimal point") }`
    (convert.rs:291), then the remaining declets -/
def writeWithPointC (checks : Bool) (total : Nat) : List (List Nat) → Nat → Bool → Chk (List Nat)
  | [], _, wrote =>
    if wrote then .ok [] else .error "convert.rs:291 expect(\"ran out of digits before the decimal point\")"
  | d :: rest, written, wrote =>
    if wrote then
      match writeWithPointC checks total rest (written + d.length) true with
      | .error e => .error e
      | .ok t => .ok (d ++ t)
    else
      match writeDecimalDigitsC checks d total written with
      | .error e => .error e
      | .ok (o, w, p) =>
        match writeWithPointC checks total rest w p with
        | .error e => .error e
        | .ok t => .ok (o ++ t)

/-- `write_all_as_scientific` (convert.rs:554): the only sites are those of `write_decimal_digits(.., 1, written = 0, ..)`;
    `raise` saturates and `to_fmt` is `Display` of an integer -/
def writeAllAsScientificC (T : Ty) (checks : Bool) (lz : LeadingZeroes) (declets : List (List Nat)) (exponent : Int) :
    Chk (List Nat) := do
  let (head, written, rest) ←
    match lz.partialDeclet with
    | some ds =>
      match writeDecimalDigitsC checks ds 1 0 with
      | .error e => .error e
      | .ok (o, w, wrotePoint) =>
        if wrotePoint then .ok (o, w, declets)
        else match declets with
          | d :: rest => .ok (o ++ [46] ++ d, w + 3, rest)
          | [] => .ok (o, w, [])
    | none => (.ok ([], 0, declets) : Chk (List Nat × Nat × List (List Nat)))
  let body := head ++ rest.flatten
  let written := written + rest.flatten.length
  let mark := if written = 0 then [48, 101] else [101]
  .ok (body ++ mark ++ intToAscii (T.raise exponent (written - 1)))

/-- the finite arm of `decimal_to_fmt` after the sign (convert.rs:234–366).
    Sites: convert.rs:254 `adjusted_precision_digits_with_msd_declet(decimal) - skipped.skipped`, convert.rs:267
    `non_zero_digits + exponent` (i32), the `±123.456` loop, convert.rs:305 `debug_assert!(leading_zeroes == 0 || …)`,
    convert.rs:324 `&DECIMAL_ZEROES[..leading_zeroes + "0.".len()]`. -/
def fmtFiniteC (T : Ty) (checks : Bool) (precision : Nat) (msdAscii : Nat) (declets : List (List Nat)) (exponent : Int) :
    Chk (List Nat) :=
  let inI32 : Bool := T.expIsI32 || (decide (i32Min ≤ exponent) && decide (exponent ≤ i32Max))
  if exponent = 0 then
    let (lz, rest) := skipLeadingZeroes msdAscii declets
    .ok (writeAllAsInteger lz rest 0)
  else if exponent < 0 ∧ inI32 = true then
    let (lz, rest) := skipLeadingZeroes msdAscii declets
    match subUsize checks "convert.rs:254 adjusted_precision_digits_with_msd_declet(decimal) - skipped.skipped"
        (precision + 2) lz.skipped with
    | .error e => .error e
    | .ok nz =>
      -- `non_zero_digits.try_into()`: usize → i32
      if (nz : Int) ≤ i32Max then
        match resI32 checks "convert.rs:267 non_zero_digits + exponent" ((nz : Int) + exponent) with
        | .error e => .error e
        | .ok integerDigits =>
          if integerDigits > 0 then
            let groups := (match lz.partialDeclet with | some d => [d] | none => []) ++ rest
            writeWithPointC checks integerDigits.toNat groups 0 false
          else
            match dbg checks "convert.rs:305 debug_assert!(leading_zeroes == 0 || leading_zeroes.is_negative())"
                (integerDigits = 0 ∨ integerDigits < 0) with
            | .error e => .error e
            | .ok _ =>
              let leadingZeroes := integerDigits.natAbs
              if leadingZeroes + 2 ≤ 7 ∧ 1 + leadingZeroes + nz ≤ precision then
                match req "convert.rs:324 &DECIMAL_ZEROES[..leading_zeroes + 2]" (leadingZeroes + 2 ≤ 7) with
                | .error e => .error e
                | .ok _ => .ok ([48, 46] ++ List.replicate leadingZeroes 48 ++ writeAllAsInteger lz rest leadingZeroes)
              else writeAllAsScientificC T checks lz rest exponent
      else writeAllAsScientificC T checks lz rest exponent
  else
    let (lz, rest) := skipLeadingZeroes msdAscii declets
    writeAllAsScientificC T checks lz rest exponent

/-- `decimal_to_fmt` (convert.rs:209) into a writer that does not fail.  Sites: the classifiers, the decoders,
    `msd.get_ascii()`, the finite arm, convert.rs:376 `debug_assert!(is_nan(decimal))`.
    (`decode_significand_trailing_declets` is lazy in Rust; here it is run to the end first.) -/
def toTextC (T : Ty) (checks : Bool) (b : Buf) : Chk (List Nat) := do
  let neg ← isSignNegativeC checks b
  let sign : List Nat := if neg then [45] else []
  let fin ← isFiniteC checks b
  if fin then do
    let em ← decodeCombinationFiniteC T.expRep checks b
    let msdA ← bcdToAsciiC checks em.2
    let declets ← decodeDecletsC checks b
    let p ← precisionC checks b
    let body ← fmtFiniteC T checks p msdA declets em.1
    .ok (sign ++ body)
  else do
    let inf ← isInfiniteC checks b
    if inf then .ok (sign ++ [105, 110, 102])
    else do
      let isn ← isNanC checks b
      dbg checks "convert.rs:376 debug_assert!(is_nan(decimal))" (isn = true)
      let q ← isQuietNanC checks b
      let declets ← decodeDecletsC checks b
      .ok (sign ++ fmtNan q declets)

/-! ## `decimal_from_parsed` (convert.rs:52) -/

/-- `buf[range]`: panics when `start > end` or `end > len` -/
def sliceC (site : String) (l : List Nat) (r : Range) : Chk (List Nat) :=
  if r.start ≤ r.stop ∧ r.stop ≤ l.length then .ok (slice l r) else .error site

/-- `Integer::try_from_ascii` for `i32` (num.rs:161): per digit `checked_mul(10)?`, then num.rs:167/172 `(b - b'0')`
    (u8 underflow below `'0'`), then `checked_sub/checked_add(..)?` -/
def i32FromAsciiC (checks : Bool) (neg : Bool) : List Nat → Int → Chk (Option Int)
  | [], acc => .ok (some acc)
  | d :: ds, acc =>
    let m := acc * 10
    if m < i32Min || m > i32Max then .ok none
    else
      match subU8 checks "num.rs:167 b - b'0'" d 48 with
      | .error e => .error e
      | .ok dv =>
        let v := if neg then m - (dv : Nat) else m + (dv : Nat)
        if v < i32Min || v > i32Max then .ok none else i32FromAsciiC checks neg ds v

/-- `try_exponent_from_ascii`.  For `BigInt`, `BigInt::parse_bytes` returns `None` (hence an error, not a panic) on an
    empty or non-digit input. -/
def exponentFromAsciiC (T : Ty) (checks : Bool) (neg : Bool) (ds : List Nat) : Chk (Except OverflowErr Int) :=
  if T.expIsI32 then
    match i32FromAsciiC checks neg ds 0 with
    | .error e => .error e
    | .ok (some e) => .ok (.ok e)
    | .ok none => .ok (.error (.exponentOutOfRange 4))
  else if ds ≠ [] ∧ ds.all Spec.isDigit then .ok (.ok (bigFromAscii neg ds))
  else .ok (.error (.exponentOutOfRange 4))

/-- `try_with_at_least_precision` (buf.rs:202): buf.rs:206 `debug_assert_ne!(0, integer_digits)`; the width formulas
    use only `/`, `%`, `+` on small numbers, `saturating_abs`, `saturating_sub` and (for `BigInt`) indexing into
    `to_signed_bytes_le()`, which is never empty -/
def withPrecisionC (T : Ty) (checks : Bool) (d : Nat) (e : Option Int) : Chk (Except OverflowErr Buf) := do
  dbg checks "buf.rs:206 debug_assert_ne!(0, integer_digits)" (d ≠ 0)
  .ok (T.withPrecision d e)

/-- the part of the finite arm of `decimal_from_parsed` after the text has been sliced (convert.rs:108–125 / 134–148) -/
def encodeFiniteC (T : Ty) (checks : Bool) (neg : Bool) (chunks : List (List Nat)) (exp : Int) :
    Chk (Except OverflowErr Buf) := do
  let r ← withPrecisionC T checks chunks.flatten.length (some exp)
  match r with
  | .error e => .ok (.error e)
  | .ok buf => do
    let sm ← encodeSignificandC checks buf chunks
    let buf ← encodeCombinationFiniteC T.expRep checks sm.1 neg exp sm.2
    .ok (.ok buf)

/-- the exponent of the finite arm (convert.rs:70–81): convert.rs:77 `buf[exponent.exponent_range]` and the conversion -/
def fromParsedExpC (T : Ty) (checks : Bool) (text : List Nat) : Option PExponent → Chk (Except OverflowErr Int)
  | some e => do
    let ds ← sliceC "convert.rs:77 buf[exponent.exponent_range]" text e.range
    exponentFromAsciiC T checks e.neg ds
  | none => .ok (.ok 0)

/-- the significand of the finite arm (convert.rs:83–150): convert.rs:91 `&buf[integer_range]`, convert.rs:92
    `&buf[fractional_range]`, convert.rs:130 `&buf[integer_range]`, then allocation and the two encoders -/
def fromParsedSigC (T : Ty) (checks : Bool) (text : List Nat) (sig : PSignificand) (e0 : Int) : Chk (Except OverflowErr Buf) :=
  match sig.point with
  | some pt => do
    let intDigits ← sliceC "convert.rs:91 &buf[integer_range]" text ⟨sig.range.start, pt.start⟩
    let fracDigits ← sliceC "convert.rs:92 &buf[fractional_range]" text ⟨pt.stop, sig.range.stop⟩
    encodeFiniteC T checks sig.neg [intDigits, fracDigits] (T.lower e0 fracDigits.length)
  | none => do
    let ds ← sliceC "convert.rs:130 &buf[integer_range]" text sig.range
    encodeFiniteC T checks sig.neg [ds] e0

/-- `decimal_from_parsed` (convert.rs:52).  Sites: those of the finite arm above, convert.rs:159 and :196 `.expect(..)`,
    convert.rs:186 `&payload_buf[significand_range]`, `buf[buf.len() - 1]` in the infinity/NaN encoders. -/
def fromParsedC (T : Ty) (checks : Bool) : Parsed → Chk (Except OverflowErr Buf)
  | .finite ⟨tb, sig, ex⟩ => do
    let e0 ← fromParsedExpC T checks tb.ascii ex
    match e0 with
    | .error err => .ok (.error err)
    | .ok e0 => fromParsedSigC T checks tb.ascii sig e0
  | .infinity neg =>
    match T.withAtLeastBytes 4 with
    | .ok buf => do
      let b ← encodeInfinityC checks buf neg
      .ok (.ok b)
    | .error _ => .error "convert.rs:159 expect(\"infinity will always fit in the minimal sized buffer\")"
  | .nan ⟨tb, signaling, neg, payload⟩ =>
    match payload.filter (fun s => s.range.stop > s.range.start) with
    | some s => do
      let r ← withPrecisionC T checks (s.range.stop - s.range.start + 1) none
      match r with
      | .error e => .ok (.error e)
      | .ok buf => do
        let ds ← sliceC "convert.rs:186 &payload_buf[significand_range]" tb.ascii s.range
        let sm ← encodeSignificandC checks buf [ds]
        let b ← encodeNanC checks sm.1 neg signaling
        .ok (.ok b)
    | none =>
      match T.withAtLeastBytes 4 with
      | .ok buf => do
        let b ← encodeNanC checks buf neg signaling
        .ok (.ok b)
      | .error _ => .error "convert.rs:196 expect(\"a NaN with no payload will always fit in the minimal sized buffer\")"

/-! ## `decimal_to_int` (from_int.rs:28) -/

/-- `Integer::try_from_ascii` for a primitive integer (num.rs:161 / :219): `(b - b'0')` at num.rs:167/172/227 -/
def intFromAsciiC (checks : Bool) (I : Spec.IntTy) (neg : Bool) : List Nat → Int → Chk (Option Int)
  | [], acc => .ok (some acc)
  | d :: ds, acc =>
    if neg && !I.signed then .ok none
    else
      let m := acc * 10
      if !I.contains m then .ok none
      else
        match subU8 checks "num.rs:167 b - b'0'" d 48 with
        | .error e => .error e
        | .ok dv =>
          let v := if neg then m - (dv : Nat) else m + (dv : Nat)
          if !I.contains v then .ok none else intFromAsciiC checks I neg ds v

/-! ### the digit stream of a decimal, decoded on demand

`decode_significand_trailing_declets` (significand.rs:109) is an `iter::from_fn`: nothing is decoded until a consumer asks
for the next item, and `decimal_to_int` / `decimal_to_binary_float` hand the iterator to consumers that stop asking early
(`checked_mul(10)?`, `Iterator::all`, `take(k)`, a full scratch buffer).  A declet that is never asked for is never
decoded, so its panic sites are never reached.  `decodeStepC` is one call of the closure, `Digits` the state of
`Some(msd.get_ascii()).into_iter().chain(declets.flatten())`, `nextDigitC` one call of its `next`; the consumers below
are loops over `nextDigitC` that stop exactly where the Rust loops stop. -/

/-- one call of the closure of `iter::from_fn` in `decode_significand_trailing_declets` (significand.rs:116–127) on the
    captured `bit_index`: `if bit_index > 0 { Some(decode(..)) } else { None }`.  Sites as in `decodeDecletsGoC`:
    significand.rs:597 `*decimal_bit_index -= 10`, :602/:603 the two byte reads, :815 `unreachable!()`, :288 `bcd + b'0'`. -/
def decodeStepC (checks : Bool) (b : Buf) (bit : Nat) : Chk (Option (List Nat × Nat)) :=
  if bit = 0 then .ok none
  else
    match subUsize checks "significand.rs:597 *decimal_bit_index -= 10" bit 10 with
    | .error e => .error e
    | .ok bit' =>
      match readDpdC b bit' with
      | .error e => .error e
      | .ok dpd =>
        match bcdOfDpdC dpd with
        | .error e => .error e
        | .ok bcd =>
          match asciiOfBcdC checks bcd with
          | .error e => .error e
          | .ok d => .ok (some (d, bit'))

/-- the state of `Some(msd.get_ascii()).into_iter().chain(decode_significand_trailing_declets(decimal).flatten())`
    (from_int.rs:35–37 and the other arms; from_binary_float.rs:45–47; without the `Some(msd)` at from_binary_float.rs:67):
    `pending` — the digits already produced and not yet consumed (the front of the `Chain`, then the `[u8; 3]` the `Flatten`
    is currently walking); `bit` — the closure's `bit_index`; `fuel` — the bound on the number of closure calls, the same
    fuel as `decodeDecletsGoC`. -/
structure Digits where
  pending : List Nat
  fuel : Nat
  bit : Nat

/-- the stream at the start: `front` is `[msd.get_ascii()]` or `[]`, `tb` is `trailing_significand_width_bits()`, which
    `decode_significand_trailing_declets` reads when it is called (significand.rs:112), before any item is asked for -/
def Digits.start (front : List Nat) (tb : Nat) : Digits := ⟨front, (tb + 9) / 10, tb⟩

/-- an upper bound on the number of digits the stream can still yield; the consumers that Rust writes as unbounded loops
    (`for b in ascii`, `Iterator::all`) run with `bound + 1` steps of fuel, so that the final `None` is pulled too -/
def Digits.bound (it : Digits) : Nat := it.pending.length + 3 * it.fuel

/-- `Iterator::next` of the chain: a pending digit if there is one; otherwise `Flatten` asks the declet iterator for
    its next item (the only place where a declet is decoded) and starts walking it. -/
def nextDigitC (checks : Bool) (b : Buf) : List Nat → Nat → Nat → Chk (Option (Nat × Digits))
  | d :: r, k, bit => .ok (some (d, ⟨r, k, bit⟩))
  | [], 0, _ => .ok none
  | [], k + 1, bit =>
    match decodeStepC checks b bit with
    | .error e => .error e
    | .ok none => .ok none
    | .ok (some (ds, bit')) => nextDigitC checks b ds k bit'

def Digits.nextC (checks : Bool) (b : Buf) (it : Digits) : Chk (Option (Nat × Digits)) :=
  nextDigitC checks b it.pending it.fuel it.bit

/-- the loop of `Integer::try_from_ascii` (num.rs:165–174 / :225–228) over `ascii.take(n)`:
    `for b in ascii { i = i.checked_mul(10)?; i = i.checked_add((b - b'0') as $i)?; }` — the first overflow returns `None`
    and nothing more is pulled.  `take(n)` returns `None` without asking the inner iterator once `n` items went by
    (from_int.rs:66–68); the arms without `take` pass `bound + 1`.  Result: the value, and the stream where the loop left
    it (`digits.by_ref()`). -/
def intFromDigitsC (checks : Bool) (b : Buf) (I : Spec.IntTy) (neg : Bool) : Nat → Digits → Int → Chk (Option Int × Digits)
  | 0, it, acc => .ok (some acc, it)
  | n + 1, it, acc =>
    match it.nextC checks b with
    | .error e => .error e
    | .ok none => .ok (some acc, it)
    | .ok (some (d, it')) =>
      let m := acc * 10
      if !I.contains m then .ok (none, it')
      else
        match subU8 checks "num.rs:167 b - b'0'" d 48 with
        | .error e => .error e
        | .ok dv =>
          let v := if neg then m - (dv : Nat) else m + (dv : Nat)
          if !I.contains v then .ok (none, it') else intFromDigitsC checks b I neg n it' v

/-- `Integer::try_from_ascii(is_negative, ascii.take(n))`: an unsigned target returns `None` for a negative sign before
    it asks for any digit (num.rs:222–223) -/
def tryFromDigitsC (checks : Bool) (b : Buf) (I : Spec.IntTy) (neg : Bool) (n : Nat) (it : Digits) : Chk (Option Int × Digits) :=
  if neg && !I.signed then .ok (none, it) else intFromDigitsC checks b I neg n it 0

/-- `digits.all(|d| d == b'0')` (from_int.rs:73, :87): stops at the first digit that is not `'0'` -/
def allZeroC (checks : Bool) (b : Buf) : Nat → Digits → Chk Bool
  | 0, _ => .ok true
  | n + 1, it =>
    match it.nextC checks b with
    | .error e => .error e
    | .ok none => .ok true
    | .ok (some (d, it')) => if d == 48 then allZeroC checks b n it' else .ok false

/-- `decimal_to_int` after `decode_combination_finite`: the `match exp.to_i32()` (from_int.rs:31–94), each arm in the
    order the Rust code evaluates it.  Besides the digit stream and its consumers there are from_int.rs:50
    `exponent as usize` (a cast of a positive number) and from_int.rs:68
    `decimal.precision_digits() - (exponent.unsigned_abs() as usize)`, guarded by the arm's condition. -/
def toIntCoreC (T : Ty) (checks : Bool) (b : Buf) (I : Spec.IntTy) (exponent : Int) (msd : Nat) : Chk (Option Int) :=
  let inI32 := T.expIsI32 || (decide (i32Min ≤ exponent) && decide (exponent ≤ i32Max))
  -- `Some(0)`, `±123`, and `Some(exponent) if exponent > 0`, `±123e1`
  if inI32 && (exponent = 0 || exponent > 0) then do
    let tb ← trailingBitsC checks b
    let msdA ← bcdToAsciiC checks msd
    let neg ← isSignNegativeC checks b
    let it := Digits.start [msdA] tb
    let r ← tryFromDigitsC checks b I neg (it.bound + 1) it
    match r.1 with
    | none => .ok none
    -- `.chain(iter::repeat(b'0').take(exponent as usize))`: the zeros go through the same loop after the digits
    | some acc => .ok (if exponent = 0 then some acc else intPushZeros I neg exponent.toNat acc)
  else do
    -- the guard `(exponent.unsigned_abs() as usize) < decimal.precision_digits()` is evaluated for `Some(exponent)` only
    let arm3 ← (if inI32 then do
        let p ← precisionC checks b
        .ok (if exponent.natAbs < p then some p else none)
      else (.ok none : Chk (Option Nat)))
    match arm3 with
    | some p => do
      -- `±1230e-1`
      let tb ← trailingBitsC checks b
      let msdA ← bcdToAsciiC checks msd
      let neg ← isSignNegativeC checks b
      let k ← subUsize checks "from_int.rs:68 precision_digits() - exponent.unsigned_abs()" p exponent.natAbs
      let r ← tryFromDigitsC checks b I neg k (Digits.start [msdA] tb)
      match r.1 with
      | none => .ok none
      | some i => do
        let z ← allZeroC checks b (r.2.bound + 1) r.2
        .ok (if z then some i else none)
    | none => do
      -- `_`: `is_finite(decimal) && digits.all(|d| d == b'0')`, then `try_from_ascii(.., iter::once(b'0'))`
      let msdA ← bcdToAsciiC checks msd
      let tb ← trailingBitsC checks b
      let fin ← isFiniteC checks b
      if fin then do
        let it := Digits.start [msdA] tb
        let z ← allZeroC checks b (it.bound + 1) it
        if z then do
          let neg ← isSignNegativeC checks b
          intFromAsciiC checks I neg [48] 0
        else .ok none
      else .ok none

/-- `decimal_to_int` (from_int.rs:28) -/
def toIntC (T : Ty) (checks : Bool) (b : Buf) (I : Spec.IntTy) : Chk (Option Int) := do
  let em ← decodeCombinationFiniteC T.expRep checks b
  toIntCoreC T checks b I em.1 em.2

/-! ## `encode_max` / `encode_min` (binary.rs:23, :36) -/

/-- `encode_max`.  Sites: `precision_digits`, binary.rs:27 `max_digits - 1`, `emax`, the two encoders,
    binary.rs:31 `debug_assert_eq!(b'9', msd.get_ascii())`. -/
def encodeMaxC (r : ExpRep) (checks : Bool) (len : Nat) (neg : Bool) : Chk Buf := do
  let b := Buf.zero len
  let p ← precisionC checks b
  let pm1 ← subUsize checks "binary.rs:27 max_digits - 1" p 1
  let emax ← emaxC r checks b.widthBits
  let exp := if r.isI32 then satI32 (emax - pm1) else emax - pm1
  let sm ← encodeSignificandRepeatC checks b 57
  let a ← bcdToAsciiC checks sm.2
  dbg checks "binary.rs:31 debug_assert_eq!(b'9', msd.get_ascii())" (a = 57)
  encodeCombinationFiniteC r checks sm.1 neg exp sm.2

/-- `encode_min`.  Sites: `precision_digits`, exponent.rs:181 `1 - emax`, the two encoders. -/
def encodeMinC (r : ExpRep) (checks : Bool) (len : Nat) (neg : Bool) : Chk Buf := do
  let b := Buf.zero len
  let p ← precisionC checks b
  let emax ← emaxC r checks b.widthBits
  let emin ← subE r checks "exponent.rs:181 1 - emax" 1 emax
  let e1 := if r.isI32 then satI32 (emin + 1) else emin + 1
  let exp := if r.isI32 then satI32 (e1 - p) else e1 - p
  let sm ← encodeSignificandC checks b [[49]]
  encodeCombinationFiniteC r checks sm.1 neg exp sm.2

end Decstr.Model.Exec
