import Decstr.Model.ExecConvert
import Decstr.Model.ExecText
/-!
# Model.ExecApi — the checked model of the public operations (`bitstring/*.rs`, `convert/*.rs`, `num.rs::parse_ascii`).
Conventions as in `Model/Exec.lean`.  A `.expect(..)` of the API layer on an `Err` is a panic site like any other.
-/
namespace Decstr.Model.Exec
open Decstr.Model
open Decstr.Spec (Ty)

/-! ## parsing -/

/-- `T::try_parse_str` (bitstring.rs:77 → from_str.rs:21) -/
def tryParseStrC (T : Ty) (checks : Bool) (input : List Nat) : Chk (Except Err Buf) := do
  let r ← parseStrC checks input
  match r with
  | .ok p => do
    let b ← fromParsedC T checks p
    .ok (liftOverflow b)
  | .error e => .ok (.error (.parse e))

/-- `T::try_parse` (bitstring.rs:86 → from_str.rs:28) of a `Display` writing `frags` -/
def tryParseC (T : Ty) (checks : Bool) (frags : List (List Nat)) (fault : Fault) : Chk (Except Err Buf) := do
  let r ← parseFmtC checks T.textKind frags fault
  match r with
  | .ok p => do
    let b ← fromParsedC T checks p
    .ok (liftOverflow b)
  | .error e => .ok (.error (.parse e))

/-! ## the classifiers (bitstring.rs:5) -/

structure Classes where
  signNegative : Bool
  finite : Bool
  infinite : Bool
  nan : Bool
  quietNan : Bool
  signalingNan : Bool
deriving Repr, DecidableEq

def classify (b : Buf) : Classes :=
  ⟨isSignNegative b, isFinite b, isInfinite b, isNan b, isQuietNan b, isSignalingNan b⟩

def classifyC (checks : Bool) (b : Buf) : Chk Classes := do
  let s ← isSignNegativeC checks b
  let f ← isFiniteC checks b
  let i ← isInfiniteC checks b
  let n ← isNanC checks b
  let q ← isQuietNanC checks b
  let sn ← isSignalingNanC checks b
  .ok ⟨s, f, i, n, q, sn⟩

/-! ## decimal → binary float (`from_binary_float.rs:35`, `num.rs:401`) -/

/-- `checked_push_significand_digit` / `checked_significand_is_negative` / `checked_begin_exponent` (finite.rs:53–105) on the
    `ArrayTextBuf<25>` scratch buffer: `remaining_capacity() == Some(0)` (array.rs:35 `N - self.len`) gives `Err`, else the
    store `self.buf[self.len] = b`.  `none` = the `Err` that `parse_ascii` turns into `None` with `.ok()?`. -/
def fpushC (checks : Bool) (site : String) (text : List Nat) (c : Nat) : Chk (Option (List Nat)) := do
  let r ← subUsize checks "text/buf/array.rs:35 N - self.len" scratchCap text.length
  if r = 0 then .ok none
  else do
    req site (text.length < scratchCap)
    .ok (some (text ++ [c]))

def fpushAllC (checks : Bool) (site : String) : List Nat → List Nat → Chk (Option (List Nat))
  | text, [] => .ok (some text)
  | text, d :: ds =>
    match fpushC checks site text d with
    | .error e => .error e
    | .ok none => .ok none
    | .ok (some t) => fpushAllC checks site t ds

/-- the unchecked stores of `FiniteParser::parse_ascii` after its capacity test -/
def fstoreAllC (site : String) : List Nat → List Nat → Chk (List Nat)
  | text, [] => .ok text
  | text, d :: ds =>
    match req site (text.length < scratchCap) with
    | .error e => .error e
    | .ok _ => fstoreAllC site (text ++ [d]) ds

/-- one `write_str` of the exponent's `Display` through `FiniteParser::parse_ascii` (exponent phase) -/
def ffragC (checks : Bool) (text frag : List Nat) : Chk (Option (List Nat)) := do
  let r ← subUsize checks "text/buf/array.rs:35 N - self.len" scratchCap text.length
  if r < frag.length then .ok none
  else do
    let t ← fstoreAllC "text/buf/array.rs:97 self.buf[self.len] = digit" text frag
    .ok (some t)

/-- the exponent part of `parse_ascii` (num.rs:424–426): `checked_begin_exponent()`, then the exponent's `Display`
    through `parse_fmt` — the sign (if any) and the digits arrive as separate `write_str` calls -/
def floatExpC (checks : Bool) (t : List Nat) (exponent : Int) : Chk (Option (List Nat)) := do
  let t ← fpushC checks "text/buf/array.rs:86 self.buf[self.len] = b'e'" t 101
  match t with
  | none => .ok none
  | some t => do
    let t ← (if exponent < 0 then ffragC checks t [45] else .ok (some t))
    match t with
    | none => .ok none
    | some t => ffragC checks t ((Nat.toDigits 10 exponent.natAbs).map Char.toNat)

/-- `parse_ascii` in num.rs:401 up to the text handed to `str::parse`, on digits that are already there (the hook
    `x_float_from_ascii`; `toFloatC` uses `floatTextLazyC`, the same function on the digit stream). -/
def floatTextC (checks : Bool) (neg : Bool) (digits : List Nat) (exponent : Int) : Chk (Option (List Nat)) := do
  let t ← (if neg then fpushC checks "text/buf/array.rs:72 self.buf[self.len] = b'-'" [] 45 else .ok (some []))
  match t with
  | none => .ok none
  | some t => do
    let sig := digits.dropWhile (· == 48)
    let t ← fpushAllC checks "text/buf/array.rs:52 self.buf[self.len] = digit" t (if sig.isEmpty then [48] else sig)
    match t with
    | none => .ok none
    | some t => floatExpC checks t exponent

/-- the first call of `SkipWhile::next` in `digits.skip_while(|d| *d == b'0')` (num.rs:417): pulls until a digit that is
    not `'0'` arrives (returned with the stream behind it) or the stream ends -/
def skipZerosC (checks : Bool) (b : Buf) : Nat → Digits → Chk (Option (Nat × Digits))
  | 0, _ => .ok none
  | n + 1, it =>
    match it.nextC checks b with
    | .error e => .error e
    | .ok none => .ok none
    | .ok (some (d, it')) => if d == 48 then skipZerosC checks b n it' else .ok (some (d, it'))

/-- the rest of `for digit in digits.skip_while(..) { parser.checked_push_significand_digit(digit).ok()?; .. }`
    (num.rs:417–420): a digit is pulled, then pushed; when the scratch buffer is full the push fails, `parse_ascii` returns
    `None`, and nothing more is pulled -/
def pushDigitsC (checks : Bool) (b : Buf) (site : String) : Nat → Digits → List Nat → Chk (Option (List Nat))
  | 0, _, text => .ok (some text)
  | n + 1, it, text =>
    match it.nextC checks b with
    | .error e => .error e
    | .ok none => .ok (some text)
    | .ok (some (d, it')) =>
      match fpushC checks site text d with
      | .error e => .error e
      | .ok none => .ok none
      | .ok (some t) => pushDigitsC checks b site n it' t

/-- `parse_ascii` (num.rs:401) on the digit stream of a decimal, up to the text handed to `str::parse` -/
def floatTextLazyC (checks : Bool) (b : Buf) (neg : Bool) (it : Digits) (exponent : Int) : Chk (Option (List Nat)) := do
  let t ← (if neg then fpushC checks "text/buf/array.rs:72 self.buf[self.len] = b'-'" [] 45 else .ok (some []))
  match t with
  | none => .ok none
  | some t => do
    let first ← skipZerosC checks b (it.bound + 1) it
    let t ← (match first with
      -- `if written == 0 { parser.checked_push_significand_digit(b'0').ok()?; }`
      | none => fpushC checks "text/buf/array.rs:52 self.buf[self.len] = digit" t 48
      | some (d, it') => do
        let t ← fpushC checks "text/buf/array.rs:52 self.buf[self.len] = digit" t d
        match t with
        | none => .ok none
        | some t => pushDigitsC checks b "text/buf/array.rs:52 self.buf[self.len] = digit" (it'.bound + 1) it' t)
    match t with
    | none => .ok none
    | some t => floatExpC checks t exponent

/-- `Float::nan` (num.rs:325–341) on the payload `try_from_ascii(..).unwrap_or_else(zero)` delivered -/
def toFloatNanOf (B : Spec.BinFmt) (neg : Bool) (payload : Int) : Nat :=
  let bits := if payload = 0 then quietNanBits B else quietNanBits B ||| (payload.toNat % 2 ^ B.width &&& nanPayloadMask B)
  (if neg then B.signMask else 0) + bits

/-- `decimal_to_binary_float` (from_binary_float.rs:35), in the order the Rust code evaluates it.  Sites: classifiers and
    `decode_combination_finite`, the digit stream as far as `parse_ascii` / `try_from_ascii` pull it, the scratch buffer,
    from_binary_float.rs:65 `debug_assert!(is_nan(decimal))`, the `(b - b'0')` of the payload conversion.
    `str::parse::<f32/f64>` does not panic. -/
def toFloatC (T : Ty) (checks : Bool) (b : Buf) (B : Spec.BinFmt) : Chk (Option Nat) := do
  let fin ← isFiniteC checks b
  if fin then do
    let em ← decodeCombinationFiniteC T.expRep checks b
    let tb ← trailingBitsC checks b
    let neg ← isSignNegativeC checks b
    let msdA ← bcdToAsciiC checks em.2
    let t ← floatTextLazyC checks b neg (Digits.start [msdA] tb) em.1
    .ok (match t with
      | none => none
      | some text =>
        match parseFloatBits B text with
        | some bits => if B.isInf bits || B.isNan bits then none else some bits
        | none => none)
  else do
    let inf ← isInfiniteC checks b
    if inf then do
      let neg ← isSignNegativeC checks b
      .ok (some ((if neg then B.signMask else 0) + B.infBits))
    else do
      let isn ← isNanC checks b
      dbg checks "convert/from_binary_float.rs:65 debug_assert!(is_nan(decimal))" (isn = true)
      let tb ← trailingBitsC checks b
      -- `F::NanPayload::try_from_ascii(false, payload.flatten()).unwrap_or_else(F::NanPayload::zero)`: stops at the
      -- first overflow of the `i32` / `i64` payload
      let it := Digits.start [] tb
      let r ← tryFromDigitsC checks b ⟨true, B.width⟩ false (it.bound + 1) it
      let neg ← isSignNegativeC checks b
      let _ ← isSignalingNanC checks b
      .ok (some (toFloatNanOf B neg (r.1.getD 0)))

/-- `d2f!` (bitstring.rs:269): `Bitstring32::to_f64` is `decimal_to_binary_float(..).expect("infallible conversion")` -/
def toFloatInfallibleC (T : Ty) (checks : Bool) (b : Buf) (B : Spec.BinFmt) : Chk Nat := do
  let r ← toFloatC T checks b B
  match r with
  | some bits => .ok bits
  | none => .error "bitstring.rs:269 expect(\"infallible conversion\")"

/-! ## integer / binary float → decimal -/

def _root_.Decstr.Model.Res.opt : Res → Option Buf
  | .ok b => some b
  | _ => none

/-- `decimal_from_int` (from_int.rs:97) / the finite arm of `decimal_from_binary_float` (from_binary_float.rs:91), and the
    `i2d!`/`f2d!` wrappers: from_int.rs:102 `expect("primitive integers can always be parsed")`,
    from_binary_float.rs:96 `expect("f64 can always be parsed")`, bitstring.rs:116 / :237 `expect("infallible conversion")`.
    (`itoa` and `ryu` are other crates.) -/
def fromTextC (T : Ty) (checks : Bool) (infallible : Bool) (text : List Nat) : Chk (Option Buf) := do
  let r ← parseFiniteStrC checks text
  match r with
  | .error _ => .error "convert/from_int.rs:102 expect(\"primitive integers can always be parsed\")"
  | .ok p => do
    let r ← fromParsedC T checks p
    match r with
    | .ok b => .ok (some b)
    | .error _ => if infallible then .error "bitstring.rs:116 expect(\"infallible conversion\")" else .ok none

/-- `T::from_<int>(v)` -/
def fromIntC (T : Ty) (checks : Bool) (I : Spec.IntTy) (v : Int) : Chk (Option Buf) :=
  fromTextC T checks (T.intInfallible I) (Spec.toDecimal v)

/-- `T::from_f32/from_f64`; `ryu` is the text `ryu::Buffer::format_finite` returned for a finite float -/
def fromFloatC (T : Ty) (checks : Bool) (B : Spec.BinFmt) (bits : Nat) (ryu : List Nat) : Chk (Option Buf) :=
  let neg := bits ≥ B.signMask
  let inf := T.floatInfallible B
  let wrap : Chk (Except OverflowErr Buf) → Chk (Option Buf) := fun r =>
    match r with
    | .error s => .error s
    | .ok (.ok b) => .ok (some b)
    | .ok (.error _) => if inf then .error "bitstring.rs:237 expect(\"infallible conversion\")" else .ok none
  if B.isNan bits then wrap (fromParsedC T checks (.nan ⟨TextBuf.new (.array scratchCap) [], false, neg, none⟩))
  else if B.isInf bits then wrap (fromParsedC T checks (.infinity neg))
  else fromTextC T checks inf ryu

/-! ## byte-level constructors -/

/-- `try_from_le_bytes` (dynamic.rs:28, arbitrary.rs:25): after the length tests, `copy_from_slice` panics unless the
    lengths agree — guaranteed by `try_with_exactly_storage_width_bytes`.  `DynamicBinaryBuf::bytes_mut` is
    `&mut self.buf[..self.len as usize]` with `len ≤ N` by construction. -/
def tryFromLeBytesC (T : Ty) (bytes : List Nat) : Chk (Except OverflowErr Buf) :=
  let len := bytes.length
  if len = 0 || len % 4 != 0 then .ok (.error (.sizeMismatch len (len + 4 - len % 4)))
  else
    match T.withAtLeastBytes len with
    | .error e => .ok (.error e)
    | .ok buf =>
      if buf.len != len then .ok (.error (.sizeMismatch buf.len len))
      else do
        req "bitstring/dynamic.rs:39 copy_from_slice" (buf.len = bytes.length)
        .ok (.ok (Buf.ofBytes bytes))

end Decstr.Model.Exec
