import Decstr.Model.Convert
/-!
# Model.Exec — the *checked* model: every potential panic site of the codec made explicit

The pure model (`Model/{Text,Binary,Convert}.lean`) is total: indexing never fails, subtraction truncates, there are
no `debug_assert!`s.  Here every function that mirrors Rust code containing a potential panic site gets a checked
twin in `Chk = Except String`.  A checked function returns `.error site` exactly where the Rust code would panic
(`site` = `file:line what`), and otherwise computes what the Rust code computes.

`checks : Bool` is the build profile: `true` = debug (`debug_assert*!` active, arithmetic overflow and over-long shift
amounts panic), `false` = release (`debug_assert*!` compiled out, `+ - *` wrap, shift amounts are masked).  Panics that
do not depend on the profile (slice/array indexing and slicing, `expect`/`unwrap`, `unreachable!()`) are checked in both.

Conventions
* A Rust `[T]`/array index `a[i]` is `getC`/`idx` …: `.error` unless `i < len`.
* `usize`/`u32`/`u8`/`i32` arithmetic that the source writes with `+ - *` goes through `subUsize`, `subU8`, `addI32`, …:
  in range → the exact result; out of range → `.error` when `checks`, the wrapped result otherwise (what release
  computes; it then usually dies at the next index).
* `usize` *additions and multiplications of quantities bounded by a buffer or text length* (`len * 8`, `9 * bits`,
  `index + 1`, `written += n`, …) are not modelled as overflow sites: a slice cannot be longer than `isize::MAX` bytes and
  all such quantities are below `2^6 ·` length.  `as` casts never panic and are not modelled as sites; casts
  `usize as i32` are value-preserving for lengths below `2^31`, which is assumed throughout (see NOTES.md).
* Loops are written with the same fuel as the pure model's loops.

Sites, by file, are listed next to the check that models them.
-/
namespace Decstr.Model.Exec
open Decstr.Model
open Decstr.Spec (Ty)

/-! ## The panic monad and the primitive checks -/

abbrev Chk := Except String

/-- an unconditional check (index in bounds, `expect`, `unreachable!`): fails in both profiles -/
def req (site : String) (p : Prop) [Decidable p] : Chk Unit := if p then .ok () else .error site

/-- `debug_assert!(p)`: only evaluated in the debug profile -/
def dbg (checks : Bool) (site : String) (p : Prop) [Decidable p] : Chk Unit :=
  if checks = true ∧ ¬ p then .error site else .ok ()

/-- `a - b` on `usize` -/
def subUsize (checks : Bool) (site : String) (a b : Nat) : Chk Nat :=
  if b ≤ a then .ok (a - b) else if checks then .error site else .ok (a + 2 ^ 64 - b)

/-- `a - b` on `u32` -/
def subU32 (checks : Bool) (site : String) (a b : Nat) : Chk Nat :=
  if b ≤ a then .ok (a - b) else if checks then .error site else .ok (a + 2 ^ 32 - b)

/-- `a - b` on `u8` -/
def subU8 (checks : Bool) (site : String) (a b : Nat) : Chk Nat :=
  if b ≤ a then .ok (a - b) else if checks then .error site else .ok (a + 256 - b)

/-- `a + b` on `u8` -/
def addU8 (checks : Bool) (site : String) (a b : Nat) : Chk Nat :=
  if a + b < 256 then .ok (a + b) else if checks then .error site else .ok ((a + b) % 256)

/-- two's-complement wrap to `i32` -/
def wrapI32 (x : Int) : Int := (x + 2147483648) % 4294967296 - 2147483648

def fitsI32 (x : Int) : Prop := i32Min ≤ x ∧ x ≤ i32Max
instance (x : Int) : Decidable (fitsI32 x) := by unfold fitsI32; infer_instance

/-- the result of an `i32` operation whose exact value is `r` -/
def resI32 (checks : Bool) (site : String) (r : Int) : Chk Int :=
  if fitsI32 r then .ok r else if checks then .error site else .ok (wrapI32 r)

/-- a shift amount for a `bits`-wide operand: `s < bits`, else overflow panic (debug) / masked (release) -/
def shAmt (checks : Bool) (site : String) (bits s : Nat) : Chk Nat :=
  if s < bits then .ok s else if checks then .error site else .ok (s % bits)

/-- `l[i]` on a slice of bytes -/
def idx (site : String) (l : List Nat) (i : Nat) : Chk Nat :=
  if i < l.length then .ok (l.getD i 0) else .error site

/-- `buf[i]` -/
def getC (site : String) (b : Buf) (i : Nat) : Chk Nat := if i < b.len then .ok (b.get i) else .error site
/-- `buf[i] |= v` -/
def orAtC (site : String) (b : Buf) (i v : Nat) : Chk Buf := if i < b.len then .ok (b.orAt i v) else .error site
/-- `buf[i] = v` -/
def setAtC (site : String) (b : Buf) (i v : Nat) : Chk Buf := if i < b.len then .ok (b.setAt i v) else .error site

/-! ## Buffer geometry (`buf.rs`, `significand.rs:832`) -/

/-- `precision_digits`: significand.rs:834 `9 * storage_width_bits / 32 - 2` (usize underflow below 8 bits) -/
def precisionC (checks : Bool) (b : Buf) : Chk Nat :=
  subUsize checks "significand.rs:834 9 * storage_width_bits / 32 - 2" (9 * b.widthBits / 32) 2

/-- `trailing_significand_digits`: buf.rs:136 `self.precision_digits() - 1` -/
def trailingDigitsC (checks : Bool) (b : Buf) : Chk Nat := do
  let p ← precisionC checks b
  subUsize checks "buf.rs:136 precision_digits() - 1" p 1

/-- `trailing_significand_width_bits`: buf.rs:145 `15 * bit_width / 16 - 10` -/
def trailingBitsC (checks : Bool) (b : Buf) : Chk Nat :=
  subUsize checks "buf.rs:145 15 * bit_width / 16 - 10" (15 * b.widthBits / 16) 10

/-- `exponent_width_bits`: buf.rs:167 `combination_width_bits() - 3` (`bit_width / 16 + 9 - 3`: cannot underflow) -/
def exponentBitsC (checks : Bool) (b : Buf) : Chk Nat :=
  subUsize checks "buf.rs:167 combination_width_bits() - 3" b.combinationBits 3

/-! ## Significand (`significand.rs`) -/

/-- `encode_ascii_digit_to_bcd`: significand.rs:279 `ascii - b'0'` (u8 underflow when the byte is below `'0'`) -/
def asciiToBcdC (checks : Bool) (a : Nat) : Chk Nat := subU8 checks "significand.rs:279 ascii - b'0'" a 48

/-- `encode_ascii_declet_to_bcd` (significand.rs:294): three digit conversions; the shifts are by constants -/
def bcdOfAsciiC (checks : Bool) (a0 a1 a2 : Nat) : Chk Nat := do
  let d0 ← asciiToBcdC checks a0
  let d1 ← asciiToBcdC checks a1
  let d2 ← asciiToBcdC checks a2
  .ok (d0 ||| (d1 <<< 4) ||| (d2 <<< 8))

/-- the `match bcd & D` of `encode_bcd_declet_to_dpd`: eight arms and significand.rs:538 `_ => unreachable!()` -/
def dpdOfBcdC (bcd : Nat) : Chk Nat :=
  let sel := bcd &&& 0x888
  if sel = 0 ∨ sel = 0x008 ∨ sel = 0x080 ∨ sel = 0x800 ∨ sel = 0x880 ∨ sel = 0x088 ∨ sel = 0x808 ∨ sel = 0x888 then
    .ok (dpdOfBcd bcd)
  else .error "significand.rs:538 unreachable!()"

/-- the tail of `encode_bcd_declet_to_dpd`: significand.rs:581 `decimal[decimal_byte_index] |= …` and
    significand.rs:582 `decimal[decimal_byte_index + 1] |= …`.
    The shift amounts are `bit % 8` and `8 - bit % 8` on a `u16`: both below 16 by construction. -/
def writeDpdC (b : Buf) (dpd bit : Nat) : Chk Buf := do
  let b ← orAtC "significand.rs:581 decimal[decimal_byte_index]" b (bit / 8) (dpd <<< (bit % 8))
  orAtC "significand.rs:582 decimal[decimal_byte_index + 1]" b (bit / 8 + 1) (dpd >>> (8 - bit % 8))

/-- `out[out_index] = v` on a `[u8; 3]` (significand.rs:202, 209) -/
def setOutC (out : Nat × Nat × Nat) (i v : Nat) : Chk (Nat × Nat × Nat) :=
  if i = 0 then .ok (v, out.2.1, out.2.2)
  else if i = 1 then .ok (out.1, v, out.2.2)
  else if i = 2 then .ok (out.1, out.2.1, v)
  else .error "significand.rs:202 out[out_index]"

/-- The chunk state of `next_ascii_declet_rev`.  The Rust code holds `chunks: [&[u8]; N]` and
    `chunk_index: Option<usize>`; the chunks above `chunk_index` are never looked at again, so the state is the stack
    `chunks[chunk_index], chunks[chunk_index - 1], …, chunks[0]` (current chunk first, each chunk in text order);
    `chunk_index = None` is the empty stack and `c.checked_sub(1)` pops.

    The slow path (significand.rs:188–215): one digit at a time across chunk boundaries. -/
def declSlowC : List (List Nat) → Nat × Nat × Nat → Nat → Chk ((Nat × Nat × Nat) × List (List Nat))
  | [], out, _ => .ok (out, [])
  | chunk :: rest, out, oi =>
    if oi = 3 then .ok (out, chunk :: rest)
    else
      match _h : chunk.length with
      | 0 => declSlowC rest out oi
      | 1 =>
        match setOutC out oi (chunk.getD 0 0) with
        | .ok out' => declSlowC rest out' (oi + 1)
        | .error e => .error e
      | n + 2 =>
        match setOutC out oi (chunk.getD (n + 1) 0) with
        | .ok out' => declSlowC (chunk.take (n + 1) :: rest) out' (oi + 1)
        | .error e => .error e
termination_by st _ _ => (st.map (·.length + 1)).sum
decreasing_by
  all_goals simp only [List.map_cons, List.sum_cons, List.length_take]
  all_goals omega

/-- `next_ascii_declet_rev` (significand.rs:137).  Sites: significand.rs:170 `debug_assert_ne!(0, chunk.len())`,
    significand.rs:173–175 `chunk[chunk.len() - 1]`, `chunk[chunk.len() - 2]`, `chunk[chunk.len() - 3]` — an *empty* current
    chunk falls into the `_` arm and panics in both profiles (assertion / usize underflow then index out of bounds). -/
def nextDecletC (checks : Bool) : List (List Nat) → Chk (Option (Nat × Nat × Nat) × List (List Nat))
  | [] => .ok (none, [])
  | chunk :: rest =>
    let n := chunk.length
    if n = 1 then
      match declSlowC rest (chunk.getD 0 0, 48, 48) 1 with
      | .ok r => .ok (some r.1, r.2)
      | .error e => .error e
    else if n = 2 then
      match declSlowC rest (chunk.getD 1 0, chunk.getD 0 0, 48) 2 with
      | .ok r => .ok (some r.1, r.2)
      | .error e => .error e
    else if n = 3 then .ok (some (chunk.getD 2 0, chunk.getD 1 0, chunk.getD 0 0), rest)
    else do
      dbg checks "significand.rs:170 debug_assert_ne!(0, chunk.len())" (n ≠ 0)
      let i1 ← subUsize checks "significand.rs:173 chunk.len() - 1" n 1
      let i2 ← subUsize checks "significand.rs:174 chunk.len() - 2" n 2
      let i3 ← subUsize checks "significand.rs:175 chunk.len() - 3" n 3
      let c1 ← idx "significand.rs:173 chunk[chunk.len() - 1]" chunk i1
      let c2 ← idx "significand.rs:174 chunk[chunk.len() - 2]" chunk i2
      let c3 ← idx "significand.rs:175 chunk[chunk.len() - 3]" chunk i3
      req "significand.rs:178 &chunk[..chunk.len() - 3]" (i3 ≤ n)
      .ok (some (c1, c2, c3), chunk.take i3 :: rest)

/-- the `while digit_index < max_digits` loop of `encode_significand_trailing_digits` (significand.rs:43) -/
def encodeDecletsC (checks : Bool) : Nat → List (List Nat) → Nat → Buf → Chk (Buf × List (List Nat))
  | 0, st, _, b => .ok (b, st)
  | k + 1, st, bit, b =>
    match nextDecletC checks st with
    | .error e => .error e
    | .ok (none, st') => .ok (b, st')
    | .ok (some (a0, a1, a2), st') =>
      match bcdOfAsciiC checks a0 a1 a2 with
      | .error e => .error e
      | .ok bcd =>
        match dpdOfBcdC bcd with
        | .error e => .error e
        | .ok dpd =>
          match writeDpdC b dpd bit with
          | .error e => .error e
          | .ok b' => encodeDecletsC checks k st' (bit + 10) b'

/-- `encode_significand_trailing_digits` (significand.rs:27) on the chunks in text order.
    Sites: significand.rs:37 `debug_assert_eq!(0, max_digits % 3)`; the loop; significand.rs:66 `chunks[0][0]`
    (`chunks[0]` is the bottom of the stack) and the `ascii - b'0'` inside `MostSignificantDigit::from_ascii`.
    (`Some(N - 1)` at significand.rs:31 is a constant: the function is only instantiated with `N = 1` and `N = 2`.) -/
def encodeSignificandC (checks : Bool) (b : Buf) (chunks : List (List Nat)) : Chk (Buf × Nat) := do
  let maxDigits ← trailingDigitsC checks b
  dbg checks "significand.rs:37 debug_assert_eq!(0, max_digits % 3)" (maxDigits % 3 = 0)
  let (b', st) ← encodeDecletsC checks ((maxDigits + 2) / 3) chunks.reverse 0 b
  if st.isEmpty then .ok (b', 0)
  else do
    let a ← idx "significand.rs:66 chunks[0][0]" (st.getLast?.getD []) 0
    let msd ← asciiToBcdC checks a
    .ok (b', msd)

/-- the loop of `encode_significand_trailing_digits_repeat` (significand.rs:95) -/
def encodeRepeatGoC (checks : Bool) (digit : Nat) : Nat → Nat → Buf → Chk Buf
  | 0, _, b => .ok b
  | k + 1, bit, b =>
    match bcdOfAsciiC checks digit digit digit with
    | .error e => .error e
    | .ok bcd =>
      match dpdOfBcdC bcd with
      | .error e => .error e
      | .ok dpd =>
        match writeDpdC b dpd bit with
        | .error e => .error e
        | .ok b' => encodeRepeatGoC checks digit k (bit + 10) b'

/-- `encode_significand_trailing_digits_repeat` (significand.rs:81); site significand.rs:89 `debug_assert_eq!` -/
def encodeSignificandRepeatC (checks : Bool) (b : Buf) (digit : Nat) : Chk (Buf × Nat) := do
  let maxDigits ← trailingDigitsC checks b
  dbg checks "significand.rs:89 debug_assert_eq!(0, max_digits % 3)" (maxDigits % 3 = 0)
  let b' ← encodeRepeatGoC checks digit ((maxDigits + 2) / 3) 0 b
  let msd ← asciiToBcdC checks digit
  .ok (b', msd)

/-- the head of `decode_dpd_declet_to_bcd` after the index update: significand.rs:602 `decimal[decimal_byte_index]`,
    significand.rs:603 `decimal[decimal_byte_index + 1]`; shift amounts `bit % 8`, `8 - bit % 8` on `u16` are below 16 -/
def readDpdC (b : Buf) (bit : Nat) : Chk Nat := do
  let x0 ← getC "significand.rs:602 decimal[decimal_byte_index]" b (bit / 8)
  let x1 ← getC "significand.rs:603 decimal[decimal_byte_index + 1]" b (bit / 8 + 1)
  .ok (((x0 >>> (bit % 8)) ||| (x1 <<< (8 - bit % 8))) % 65536)

/-- the guarded `match dpd` of `decode_dpd_declet_to_bcd`: eight guards and significand.rs:815 `_ => unreachable!()` -/
def bcdOfDpdC (dpd : Nat) : Chk Nat :=
  if dpd &&& 8 = 0 ∨ dpd &&& 14 = 8 ∨ dpd &&& 14 = 10 ∨ dpd &&& 14 = 12 ∨
     dpd &&& 110 = 14 ∨ dpd &&& 110 = 78 ∨ dpd &&& 110 = 46 ∨ dpd &&& 110 = 110 then .ok (bcdOfDpd dpd)
  else .error "significand.rs:815 unreachable!()"

/-- `decode_bcd_digit_to_ascii`: significand.rs:288 `bcd + b'0'` -/
def bcdToAsciiC (checks : Bool) (bcd : Nat) : Chk Nat := addU8 checks "significand.rs:288 bcd + b'0'" bcd 48

/-- `decode_bcd_declet_to_ascii` (significand.rs:305) -/
def asciiOfBcdC (checks : Bool) (bcd : Nat) : Chk (List Nat) := do
  let d2 ← bcdToAsciiC checks ((bcd &&& 0xF00) >>> 8)
  let d1 ← bcdToAsciiC checks ((bcd &&& 0x0F0) >>> 4)
  let d0 ← bcdToAsciiC checks (bcd &&& 0x00F)
  .ok [d2, d1, d0]

/-- the iterator of `decode_significand_trailing_declets` (significand.rs:109), run to exhaustion:
    `if bit_index > 0 { *bit_index -= 10; … }`.  Site significand.rs:597 `*decimal_bit_index -= 10`.
    (The Rust iterator is lazy; running it to the end checks at least the sites any consumer reaches.) -/
def decodeDecletsGoC (checks : Bool) (b : Buf) : Nat → Nat → Chk (List (List Nat))
  | 0, _ => .ok []
  | k + 1, bit =>
    if bit = 0 then .ok []
    else
      match subUsize checks "significand.rs:597 *decimal_bit_index -= 10" bit 10 with
      | .error e => .error e
      | .ok bit' =>
        match readDpdC b bit' with
        | .error e => .error e
        | .ok dpd =>
          match bcdOfDpdC dpd with
          | .error e => .error e
          | .ok bcd =>
            match asciiOfBcdC checks bcd with
            | .error e => .error e
            | .ok d =>
              match decodeDecletsGoC checks b k bit' with
              | .error e => .error e
              | .ok ds => .ok (d :: ds)

def decodeDecletsC (checks : Bool) (b : Buf) : Chk (List (List Nat)) := do
  let tb ← trailingBitsC checks b
  decodeDecletsGoC checks b ((tb + 9) / 10) tb

/-! ## Exponent arithmetic (`exponent.rs`) -/

/-- how the exponent type represents its little-endian bytes (`Integer::Bytes`) and does its arithmetic -/
inductive ExpRep where
  /-- `i32` with `Bytes = [u8; 4]`: indexing beyond 4 panics (`FixedBinaryBuf<N, i32>`: Bitstring32/64/128) -/
  | i32Fixed
  /-- `DynamicBinaryExponent`: `i32` arithmetic, `Index` returns 0 beyond the end (`Bitstring`) -/
  | i32Dyn
  /-- `ArbitrarySizedBinaryExponent`: `BigInt`, `Index` returns 0 beyond the end (`BigBitstring`) -/
  | big
deriving Repr, DecidableEq, Inhabited

def ExpRep.isI32 : ExpRep → Bool
  | .big => false
  | _ => true

def _root_.Decstr.Spec.Ty.expRep : Ty → ExpRep
  | .b32 => .i32Fixed | .b64 => .i32Fixed | .b128 => .i32Fixed | .dyn => .i32Dyn | .big => .big

/-- `a + b`, `a - b`, `a * b` in the exponent type -/
def addE (r : ExpRep) (checks : Bool) (site : String) (a b : Int) : Chk Int :=
  if r.isI32 then resI32 checks site (a + b) else .ok (a + b)
def subE (r : ExpRep) (checks : Bool) (site : String) (a b : Int) : Chk Int :=
  if r.isI32 then resI32 checks site (a - b) else .ok (a - b)
def mulE (r : ExpRep) (checks : Bool) (site : String) (a b : Int) : Chk Int :=
  if r.isI32 then resI32 checks site (a * b) else .ok (a * b)

/-- `emax` (exponent.rs:171): exponent.rs:128 `two.pow(e)` and exponent.rs:173 `3 * pow2(..)` -/
def emaxC (r : ExpRep) (checks : Bool) (widthBits : Nat) : Chk Int := do
  let p ← if r.isI32 then resI32 checks "exponent.rs:128 two.pow(e)" (2 ^ (widthBits / 16 + 3)) else .ok (2 ^ (widthBits / 16 + 3))
  mulE r checks "exponent.rs:173 3 * pow2(k / 16 + 3)" 3 p

/-- `bias` (exponent.rs:187): `emax + precision_digits as i32 - 2` -/
def biasC (r : ExpRep) (checks : Bool) (widthBits precision : Nat) : Chk Int := do
  let e ← emaxC r checks widthBits
  let a ← addE r checks "exponent.rs:189 emax + precision_digits" e precision
  subE r checks "exponent.rs:189 … - 2" a 2

/-- `add_bias` (exponent.rs:147) -/
def addBiasC (r : ExpRep) (checks : Bool) (b : Buf) (exp : Int) : Chk Int := do
  let p ← precisionC checks b
  let bias ← biasC r checks b.widthBits p
  addE r checks "exponent.rs:148 bias + exp" bias exp

/-- `sub_bias` (exponent.rs:154) -/
def subBiasC (r : ExpRep) (checks : Bool) (b : Buf) (exp : Int) : Chk Int := do
  let p ← precisionC checks b
  let bias ← biasC r checks b.widthBits p
  subE r checks "exponent.rs:155 exp - bias" exp bias

/-! ## Combination field (`combination.rs`) -/

/-- `buf[buf.len() - 1]`: combination.rs:65/67/85/479/488/497/506/515/524 — an empty buffer underflows (debug) or
    indexes out of bounds (release) -/
def lastIndexC (checks : Bool) (site : String) (b : Buf) : Chk Nat := do
  let i ← subUsize checks (site ++ " buf.len() - 1") b.len 1
  req (site ++ " buf[buf.len() - 1]") (i < b.len)
  .ok i

def lastC (checks : Bool) (site : String) (b : Buf) : Chk Nat := do
  let i ← lastIndexC checks site b
  .ok (b.get i)

def isFiniteC (checks : Bool) (b : Buf) : Chk Bool := do
  let x ← lastC checks "combination.rs:479" b
  .ok (x &&& FINITE_COMBINATION != FINITE_COMBINATION)
def isInfiniteC (checks : Bool) (b : Buf) : Chk Bool := do
  let x ← lastC checks "combination.rs:488" b
  .ok (x &&& INFINITY_COMBINATION == INFINITY)
def isNanC (checks : Bool) (b : Buf) : Chk Bool := do
  let x ← lastC checks "combination.rs:497" b
  .ok (x &&& NAN == NAN)
def isQuietNanC (checks : Bool) (b : Buf) : Chk Bool := do
  let x ← lastC checks "combination.rs:506" b
  .ok (x &&& NAN_COMBINATION == NAN)
def isSignalingNanC (checks : Bool) (b : Buf) : Chk Bool := do
  let x ← lastC checks "combination.rs:515" b
  .ok (x &&& NAN_COMBINATION == NAN_COMBINATION)
def isSignNegativeC (checks : Bool) (b : Buf) : Chk Bool := do
  let x ← lastC checks "combination.rs:524" b
  .ok (x &&& SIGN_NEGATIVE == SIGN_NEGATIVE)

/-- `encode_combination_infinity` (combination.rs:57) -/
def encodeInfinityC (checks : Bool) (b : Buf) (neg : Bool) : Chk Buf := do
  let i ← lastIndexC checks "combination.rs:65" b
  .ok (b.setAt i (if neg then INFINITY ||| SIGN_NEGATIVE else INFINITY))

/-- `encode_combination_nan` (combination.rs:74) -/
def encodeNanC (checks : Bool) (b : Buf) (neg signaling : Bool) : Chk Buf := do
  let i ← lastIndexC checks "combination.rs:85" b
  .ok (b.setAt i (NAN ||| (if neg then SIGN_NEGATIVE else 0) ||| (if signaling then SIGNALING else 0)))

/-- `most_significant_exponent_offset` (combination.rs:441): combination.rs:467 `(exponent_bits / 8) - 1` -/
def msExponentOffsetC (checks : Bool) (exponentBits : Nat) : Chk (Nat × Nat) :=
  if exponentBits % 8 = 0 then do
    let i ← subUsize checks "combination.rs:467 (exponent_bits / 8) - 1" (exponentBits / 8) 1
    .ok (8, i)
  else .ok (exponentBits % 8, exponentBits / 8)

/-- number of bytes `BigInt::to_signed_bytes_le` returns for a negative number -/
def signedLen (e : Int) : Nat :=
  let m := (-e - 1).toNat
  (if m = 0 then 0 else m.log2 + 1) / 8 + 1

/-- `exponent[i]` on the little-endian bytes of the biased exponent (`to_le_bytes`), combination.rs:147/159/161/169/181:
    the `[u8; 4]` of an `i32` panics beyond index 3, the dynamic and arbitrary exponents yield 0 there.
    A negative exponent is its two's complement (only reachable in release, after the `debug_assert!` at :105). -/
def expByteC (r : ExpRep) (site : String) (e : Int) (i : Nat) : Chk Nat :=
  match r with
  | .i32Fixed => if i < 4 then .ok (((e % 4294967296).toNat >>> (8 * i)) % 256) else .error site
  | .i32Dyn => .ok (if i < 4 then ((e % 4294967296).toNat >>> (8 * i)) % 256 else 0)
  | .big =>
    if 0 ≤ e then .ok ((e.toNat >>> (8 * i)) % 256)
    else .ok (if i < signedLen e then ((e % 2 ^ (8 * signedLen e)).toNat >>> (8 * i)) % 256 else 0)

/-- the aligned loop, combination.rs:146–151: `buf[decimal_byte_index] = exponent[exponent_byte_index]` -/
def writeExpAlignedC (r : ExpRep) (e : Int) : Nat → Nat → Nat → Buf → Chk (Buf × Nat × Nat)
  | 0, di, ei, b => .ok (b, di, ei)
  | k + 1, di, ei, b =>
    match expByteC r "combination.rs:147 exponent[exponent_byte_index]" e ei with
    | .error s => .error s
    | .ok x =>
      match setAtC "combination.rs:147 buf[decimal_byte_index]" b di x with
      | .error s => .error s
      | .ok b' => writeExpAlignedC r e k (di + 1) (ei + 1) b'

/-- the shifted loop, combination.rs:158–165.  The shift amounts `decimal_byte_shift` and `8 - decimal_byte_shift`
    are applied to a `u8`: they must be below 8 (combination.rs:159, :161). -/
def writeExpShiftedC (r : ExpRep) (checks : Bool) (e : Int) (s : Nat) : Nat → Nat → Nat → Buf → Chk (Buf × Nat × Nat)
  | 0, di, ei, b => .ok (b, di, ei)
  | k + 1, di, ei, b =>
    match expByteC r "combination.rs:159 exponent[exponent_byte_index]" e ei with
    | .error m => .error m
    | .ok x =>
      match shAmt checks "combination.rs:159 << decimal_byte_shift" 8 s with
      | .error m => .error m
      | .ok s1 =>
        match orAtC "combination.rs:159 buf[decimal_byte_index]" b di (x <<< s1) with
        | .error m => .error m
        | .ok b1 =>
          match shAmt checks "combination.rs:161 >> decimal_byte_plus_1_shift" 8 (8 - s) with
          | .error m => .error m
          | .ok s2 =>
            match orAtC "combination.rs:160 buf[decimal_byte_index + 1]" b1 (di + 1) (x >>> s2) with
            | .error m => .error m
            | .ok b2 => writeExpShiftedC r checks e s k (di + 1) (ei + 1) b2

/-- the `if decimal_byte_shift == 0 { … } else { … }` around the two loops (combination.rs:145–166) -/
def combLoopsC (r : ExpRep) (checks : Bool) (biased : Int) (b : Buf) (bitIndex maxDi : Nat) : Chk (Buf × Nat × Nat) :=
  if bitIndex % 8 = 0 then writeExpAlignedC r biased (maxDi - bitIndex / 8) (bitIndex / 8) 0 b
  else writeExpShiftedC r checks biased (bitIndex % 8) (maxDi - bitIndex / 8) (bitIndex / 8) 0 b

/-- `encode_combination_finite` (combination.rs:91) given the *unbiased* exponent.
    Sites: the bias arithmetic (exponent.rs), combination.rs:105 `debug_assert!(!biased_exponent.is_negative())`,
    :136 `buf.len() - 1`, the two loops, :169 `buf[decimal_byte_index] |= exponent[exponent_byte_index] << shift`,
    :181 `exponent[most_significant_exponent_index] >> (most_significant_exponent_offset - 2)` (u32 underflow and
    shift amount), :188 `debug_assert_ne!(0b11, most_significant_exponent)`, :228 `unreachable!()`,
    :233 and :236 `buf[decimal_byte_index]`. -/
def encodeCombinationFiniteC (r : ExpRep) (checks : Bool) (b : Buf) (neg : Bool) (exp : Int) (msd : Nat) : Chk Buf := do
  let biased ← addBiasC r checks b exp
  dbg checks "combination.rs:105 debug_assert!(!biased_exponent.is_negative())" (0 ≤ biased)
  let ebits ← exponentBitsC checks b
  let bitIndex ← trailingBitsC checks b
  let shift := bitIndex % 8
  let maxDi ← subUsize checks "combination.rs:136 buf.len() - 1" b.len 1
  let (b, di, ei) ← combLoopsC r checks biased b bitIndex maxDi
  let x ← expByteC r "combination.rs:169 exponent[exponent_byte_index]" biased ei
  let b ← orAtC "combination.rs:169 buf[decimal_byte_index]" b di (x <<< shift)
  let (off, idx) ← msExponentOffsetC checks ebits
  let y ← expByteC r "combination.rs:181 exponent[most_significant_exponent_index]" biased idx
  let off2 ← subU32 checks "combination.rs:181 most_significant_exponent_offset - 2" off 2
  let sh ← shAmt checks "combination.rs:181 >> (most_significant_exponent_offset - 2)" 8 off2
  let mse := y >>> sh
  dbg checks "combination.rs:188 debug_assert_ne!(0b11, most_significant_exponent)" (mse ≠ 3)
  req "combination.rs:228 unreachable!()" (msd &&& 8 = 0 ∨ msd &&& 8 = 8)
  let combination :=
    if msd &&& 8 = 0 then
      ((mse &&& 2) <<< 5) ||| ((mse &&& 1) <<< 5) ||| ((msd &&& 4) <<< 2) ||| ((msd &&& 2) <<< 2) ||| ((msd &&& 1) <<< 2)
    else
      64 ||| 32 ||| ((mse &&& 2) <<< 3) ||| ((mse &&& 1) <<< 3) ||| ((msd &&& 1) <<< 2)
  let c ← getC "combination.rs:233 buf[decimal_byte_index]" b di
  let b ← setAtC "combination.rs:233 buf[decimal_byte_index]" b di ((c &&& 0x83) ||| combination)
  if neg then orAtC "combination.rs:236 buf[decimal_byte_index]" b di SIGN_NEGATIVE else .ok b

/-- the aligned iterator of `decode_combination_finite` (combination.rs:332–360): value (little-endian) and number of
    bytes yielded.  Sites combination.rs:336 and :345 `buf[decimal_byte_index]`. -/
def readExpAlignedC (b : Buf) (mse maxDi : Nat) : Nat → Nat → Chk (Nat × Nat)
  | 0, _ => .ok (0, 0)
  | k + 1, di =>
    if di < maxDi then
      match getC "combination.rs:336 buf[decimal_byte_index]" b di with
      | .error m => .error m
      | .ok x =>
        match readExpAlignedC b mse maxDi k (di + 1) with
        | .error m => .error m
        | .ok (v, c) => .ok (x + 256 * v, c + 1)
    else if di = maxDi then
      match getC "combination.rs:345 buf[decimal_byte_index]" b di with
      | .error m => .error m
      | .ok x =>
        match readExpAlignedC b mse maxDi k (di + 1) with
        | .error m => .error m
        | .ok (v, c) => .ok (((x &&& 3) ||| mse) % 256 + 256 * v, c + 1)
    else .ok (0, 0)

/-- the shifted iterator (combination.rs:370–423).  Sites :374, :380, :391, :398 `buf[..]`; the shift amounts
    `decimal_byte_shift`, `8 - decimal_byte_shift` on `u8` (:374, :380). -/
def readExpShiftedC (checks : Bool) (b : Buf) (mse s maxEi maxDi : Nat) : Nat → Nat → Nat → Chk (Nat × Nat)
  | 0, _, _ => .ok (0, 0)
  | k + 1, di, ei =>
    if di + 1 < maxDi then
      match getC "combination.rs:374 buf[decimal_byte_index]" b di with
      | .error m => .error m
      | .ok x0 =>
        match shAmt checks "combination.rs:374 >> decimal_byte_shift" 8 s with
        | .error m => .error m
        | .ok s1 =>
          match getC "combination.rs:380 buf[decimal_byte_index + 1]" b (di + 1) with
          | .error m => .error m
          | .ok x1 =>
            match shAmt checks "combination.rs:380 << decimal_byte_plus_1_shift" 8 (8 - s) with
            | .error m => .error m
            | .ok s2 =>
              match readExpShiftedC checks b mse s maxEi maxDi k (di + 1) (ei + 1) with
              | .error m => .error m
              | .ok (v, c) => .ok (((x0 >>> s1) ||| (x1 <<< s2)) % 256 + 256 * v, c + 1)
    else if di + 1 = maxDi then
      match getC "combination.rs:391 buf[decimal_byte_index]" b di with
      | .error m => .error m
      | .ok x0 =>
        match shAmt checks "combination.rs:391 >> decimal_byte_shift" 8 s with
        | .error m => .error m
        | .ok s1 =>
          match getC "combination.rs:398 buf[decimal_byte_index + 1]" b (di + 1) with
          | .error m => .error m
          | .ok x1 =>
            match shAmt checks "combination.rs:398 << decimal_byte_plus_1_shift" 8 (8 - s) with
            | .error m => .error m
            | .ok s2 =>
              let e1 := ((x1 &&& 3) <<< s2) % 256
              let e1 := if ei = maxEi then e1 ||| mse else e1
              match readExpShiftedC checks b mse s maxEi maxDi k (di + 1) (ei + 1) with
              | .error m => .error m
              | .ok (v, c) => .ok (((x0 >>> s1) ||| e1) % 256 + 256 * v, c + 1)
    else if ei = maxEi then .ok (mse % 256, 1)
    else .ok (0, 0)

/-- `Integer::from_le_bytes` on the bytes the iterator yielded: for `i32` (num.rs:180–186) every byte is stored with
    `buf[i] = b` into a `[u8; 4]` — more than four bytes panic; the value is then a two's-complement `i32`.
    `BigInt::from_bytes_le(Sign::Plus, ..)` takes any number of bytes. -/
def fromLeBytesC (r : ExpRep) (v count : Nat) : Chk Int :=
  if r.isI32 then
    if count ≤ 4 then .ok (wrapI32 (v % 4294967296)) else .error "num.rs:183 buf[i] = b"
  else .ok v

/-- the `match combination & COMBINATION_MASK` of `decode_combination_finite` (combination.rs:275–312): the two most
    significant exponent bits and the most significant digit; the shifts are by constants -/
def mseMsdOf (c : Nat) : Nat × Nat :=
  if c &&& 0x60 = 0x60 then
    ((((c &&& 0x10) >>> 3) ||| ((c &&& 0x08) >>> 3)), 8 ||| ((c &&& 0x04) >>> 2))
  else
    ((((c &&& 0x40) >>> 5) ||| ((c &&& 0x20) >>> 5)), ((c &&& 0x10) >>> 2) ||| ((c &&& 0x08) >>> 2) ||| ((c &&& 0x04) >>> 2))

/-- the `if decimal_byte_shift == 0 { … } else { … }` around the two iterators (combination.rs:331–424) -/
def readExpC (checks : Bool) (b : Buf) (mse maxEi maxDi bitIndex : Nat) : Chk (Nat × Nat) :=
  if bitIndex % 8 = 0 then readExpAlignedC b mse maxDi (maxDi - bitIndex / 8 + 1) (bitIndex / 8)
  else readExpShiftedC checks b mse (bitIndex % 8) maxEi maxDi (maxDi - bitIndex / 8 + 2) (bitIndex / 8) 0

/-- `decode_combination_finite` (combination.rs:240): (unbiased exponent, most significant digit as BCD).
    Sites: :254 `buf.len() - 1`, :272 `buf[max_decimal_byte_index]`, :315 `<< (most_significant_exponent_offset - 2)`,
    the iterators, `from_le_bytes`, :426 `debug_assert!(!biased_exponent.is_negative())`, the bias subtraction. -/
def decodeCombinationFiniteC (r : ExpRep) (checks : Bool) (b : Buf) : Chk (Int × Nat) := do
  let ebits ← exponentBitsC checks b
  let bitIndex ← trailingBitsC checks b
  let maxDi ← subUsize checks "combination.rs:254 buf.len() - 1" b.len 1
  let (off, maxEi) ← msExponentOffsetC checks ebits
  let c ← getC "combination.rs:272 buf[max_decimal_byte_index]" b maxDi
  let mm := mseMsdOf c
  let off2 ← subU32 checks "combination.rs:315 most_significant_exponent_offset - 2" off 2
  let sh ← shAmt checks "combination.rs:315 << (most_significant_exponent_offset - 2)" 8 off2
  let mse := (mm.1 <<< sh) % 256
  let (v, count) ← readExpC checks b mse maxEi maxDi bitIndex
  let biased ← fromLeBytesC r v count
  dbg checks "combination.rs:426 debug_assert!(!biased_exponent.is_negative())" (0 ≤ biased)
  let e ← subBiasC r checks b biased
  .ok (e, mm.2)

end Decstr.Model.Exec
