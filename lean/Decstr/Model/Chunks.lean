import Decstr.Model.Binary
/-!
# Model.Chunks — `next_ascii_declet_rev` and `encode_significand_trailing_digits`, literally, on chunks

`Model.Binary.encodeSignificand` works on the *concatenation* of the chunks.  The Rust code
(`/repo/src/binary/significand.rs`, lines 27–74 and 137–222) never concatenates: it walks an array of
`N` slices from the back with a cursor `chunk_index : Option<usize>` and shrinks the slices in place.
This file transcribes that control flow branch by branch; `Decstr/Proofs/Chunks.lean` proves it equal to
the concatenation model.

## Representation

* `chunks : [&[u8]; N]`  ↦ `List (List Nat)` (chunk `N-1`, the last one, is least significant).  A slice
  `&chunk[..k]` is `chunk.take k`; `chunks[c] = s` is `chunks.set c s`.
* `chunk_index : Option<usize>` ↦ `Option Nat`; `c.checked_sub(1)` ↦ `checkedSub1 c`.
* `out : [u8; 3]` ↦ `Declet = Nat × Nat × Nat` (`out[0], out[1], out[2]`); `out[i] = d` ↦ `setOut`.
* **Panics are tracked.** Every function returns `Option …` where the outer `none` means *the Rust code
  panics* (slice/array index out of bounds, `usize` subtraction underflow, failed `debug_assert`).  An
  index expression `s[i]` is transcribed as `s[i]?` in the `Option` monad, so that an out-of-range index
  is a panic and not a default value.  The `Option<[u8; 3]>` that `next_ascii_declet_rev` *returns* is
  the inner option of `nextAsciiDecletRev`.
* **Loops.** The inner `while let` (l.188) is `slowLoop`, structurally recursive on a fuel argument (so
  that `decide`/`rfl` can run it); `none` on fuel exhaustion.  It is called with fuel `chunks.length + 3`;
  `Proofs.Chunks.slowLoop_spec` shows that this never runs out (each iteration either returns, lowers the
  chunk index, or fills one of at most two free slots of `out`) — for *every* input, also with empty
  chunks.  The outer `while digit_index < max_digits` (l.43) runs `max_digits / 3` times, exactly as in
  `Model.Binary.encodeDeclets` (`max_digits % 3 = 0` is the `debug_assert` of l.37, true for every width
  `32n`).
* The byte writes (`encode_ascii_declet_to_bcd`, `encode_bcd_declet_to_dpd`) are the ones of
  `Model.Binary`: `bcdOfAscii`, `dpdOfBcd`, `writeDpd`.
-/
namespace Decstr.Model

/-- `[u8; 3]`: `(out[0], out[1], out[2])`, least significant digit first -/
abbrev Declet := Nat × Nat × Nat

/-- `usize::checked_sub(1)` -/
def checkedSub1 (c : Nat) : Option Nat := if c = 0 then none else some (c - 1)

/-- `out[i] = d` on a `[u8; 3]`; `none` = index out of bounds (panic) -/
def setOut (out : Declet) (i d : Nat) : Option Declet :=
  match i with
  | 0 => some (d, out.2.1, out.2.2)
  | 1 => some (out.1, d, out.2.2)
  | 2 => some (out.1, out.2.1, d)
  | _ => none

/-- The slow path of `next_ascii_declet_rev`, l.188–215:
    ```
    while let Some(c) = *chunk_index {
        if out_index == 3 { return Some(out); }
        let chunk = chunks[c];
        match chunk.len() { 0 => …, 1 => …, _ => … }
    }
    Some(out)
    ```
    Returns `(out, chunks, chunk_index)`; outer `none` = panic, or fuel exhausted (never: `slowLoop_spec`). -/
def slowLoop : Nat → List (List Nat) → Option Nat → Declet → Nat → Option (Declet × List (List Nat) × Option Nat)
  | 0, _, _, _, _ => none                                       -- out of fuel (unreachable)
  | _ + 1, cs, none, out, _ => some (out, cs, none)             -- l.188 `while let` fails; l.217 `Some(out)`
  | fuel + 1, cs, some c, out, oi =>
    if oi = 3 then some (out, cs, some c)                       -- l.191–193 `return Some(out)`
    else do
      let chunk ← cs[c]?                                        -- l.195 `chunks[c]`
      match chunk.length with
      | 0 =>                                                    -- l.199 empty chunk: move on
        slowLoop fuel cs (checkedSub1 c) out oi
      | 1 => do                                                 -- l.201–206 last byte of the chunk
        let d ← chunk[0]?
        let out ← setOut out oi d
        slowLoop fuel cs (checkedSub1 c) out (oi + 1)
      | n => do                                                 -- l.208–213 more than one byte left
        let d ← chunk[n - 1]?
        let out ← setOut out oi d
        slowLoop fuel (cs.set c (chunk.take (n - 1))) (some c) out (oi + 1)

/-- `next_ascii_declet_rev(chunks, chunk_index)`, l.137–222.
    Result: outer `none` = panic; otherwise `(returned Option<[u8;3]>, chunks after, chunk_index after)`. -/
def nextAsciiDecletRev (cs : List (List Nat)) (idx : Option Nat) :
    Option (Option Declet × List (List Nat) × Option Nat) :=
  match idx with
  | none => some (none, cs, none)                               -- l.220 `None => None`
  | some c => do
    let chunk ← cs[c]?                                          -- l.140 `chunks[c]`
    match chunk.length with
    | 1 => do                                                   -- l.144–150
      let d0 ← chunk[0]?
      let (out, cs', idx') ← slowLoop (cs.length + 3) cs (checkedSub1 c) (d0, 48, 48) 1
      some (some out, cs', idx')
    | 2 => do                                                   -- l.152–158
      let d1 ← chunk[1]?
      let d0 ← chunk[0]?
      let (out, cs', idx') ← slowLoop (cs.length + 3) cs (checkedSub1 c) (d1, d0, 48) 2
      some (some out, cs', idx')
    | 3 => do                                                   -- l.161–167 fast path, chunk finished
      let d2 ← chunk[2]?
      let d1 ← chunk[1]?
      let d0 ← chunk[0]?
      some (some (d2, d1, d0), cs, checkedSub1 c)
    | n =>                                                      -- l.169–181 `_` arm: length 0 or ≥ 4
      -- l.170 `debug_assert_ne!(0, chunk.len())` fails in debug builds; in release builds
      -- `chunk.len() - 1` wraps to `usize::MAX` and `chunk[usize::MAX]` is out of bounds: a panic either way.
      if n = 0 then none
      else do
        let a ← chunk[n - 1]?
        let b ← chunk[n - 2]?
        let c' ← chunk[n - 3]?
        some (some (a, b, c'), cs.set c (chunk.take (n - 3)), some c)

/-- the loop of `encode_significand_trailing_digits`, l.43–60; `k` = iterations still allowed
    (`(max_digits - digit_index) / 3`), `bit` = `bit_index`.  Returns the buffer, the chunks and the chunk index. -/
def encodeLoopChunks : Nat → List (List Nat) → Option Nat → Nat → Buf → Option (Buf × List (List Nat) × Option Nat)
  | 0, cs, idx, _, b => some (b, cs, idx)                       -- l.43 `digit_index < max_digits` fails
  | k + 1, cs, idx, bit, b => do
    let (r, cs', idx') ← nextAsciiDecletRev cs idx              -- l.44
    match r with
    | some (a0, a1, a2) =>                                      -- l.45–57
      encodeLoopChunks k cs' idx' (bit + 10) (writeDpd b (dpdOfBcd (bcdOfAscii a0 a1 a2)) bit)
    | none => some (b, cs', idx')                               -- l.58 `None => break`

/-- The same loop with the literal counters of l.40–60, `while digit_index < max_digits { …; digit_index += 3 }`
    (fuel-bounded; `none` when out of fuel).  `Proofs.Chunks.encodeLoopChunksDI_eq` shows it equal to
    `encodeLoopChunks ⌈(max_digits - digit_index)/3⌉`, which is `max_digits / 3` at `digit_index = 0` whenever
    `max_digits % 3 = 0` (the `debug_assert` of l.37; `Proofs.Chunks.trailingDigits_mod3` for every width `32n`). -/
def encodeLoopChunksDI : Nat → Nat → Nat → List (List Nat) → Option Nat → Nat → Buf →
    Option (Buf × List (List Nat) × Option Nat)
  | 0, _, _, _, _, _, _ => none                                 -- out of fuel (unreachable)
  | fuel + 1, di, maxDigits, cs, idx, bit, b =>
    if di < maxDigits then do                                   -- l.43
      let (r, cs', idx') ← nextAsciiDecletRev cs idx            -- l.44
      match r with
      | some (a0, a1, a2) =>                                    -- l.45–57, `digit_index += 3`
        encodeLoopChunksDI fuel (di + 3) maxDigits cs' idx' (bit + 10) (writeDpd b (dpdOfBcd (bcdOfAscii a0 a1 a2)) bit)
      | none => some (b, cs', idx')                             -- l.58
    else some (b, cs, idx)

/-- l.64–73: the most significant digit, as BCD.  `chunks[0][0]` can panic (outer `none`). -/
def msdChunks (cs : List (List Nat)) (idx : Option Nat) : Option Nat :=
  if idx.isSome then do                                         -- l.64 `chunk_index.is_some()`
    let c0 ← cs[0]?                                             -- l.66 `chunks[0]`
    let d ← c0[0]?                                              --      `…[0]`
    some (d - 48)                                               -- `from_ascii`: `ascii - b'0'` (as in `encodeSignificand`)
  else some 0                                                   -- l.72 `MostSignificantDigit::zero()`

/-- `encode_significand_trailing_digits(decimal, chunks)` with panics tracked: `none` = the Rust code panics.
    `N = 0` is rejected first (`Some(N - 1)`, l.31, underflows). -/
def encodeSignificandChunks? (b : Buf) (chunks : List (List Nat)) : Option (Buf × Nat) :=
  if chunks.length = 0 then none                                -- l.31 `N - 1`
  else do
    let (b', cs, idx) ← encodeLoopChunks (b.trailingDigits / 3) chunks (some (chunks.length - 1)) 0 b
    let msd ← msdChunks cs idx
    some (b', msd)

/-- `encode_significand_trailing_digits(decimal, chunks)`: the buffer and the most significant digit (BCD).
    Where the Rust code panics (see `encodeSignificandChunks?`) the value is the junk default `(b, 0)`;
    `Proofs.Chunks.encodeSignificandChunks?_eq` shows that this does not happen when no chunk is empty. -/
def encodeSignificandChunks (b : Buf) (chunks : List (List Nat)) : Buf × Nat :=
  (encodeSignificandChunks? b chunks).getD (b, 0)

end Decstr.Model
