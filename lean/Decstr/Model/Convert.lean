import Decstr.Model.Text
import Decstr.Model.Binary
import Decstr.Spec.Judge
/-!
# Model.Convert — `src/convert.rs`, `src/convert/{from_str,from_int,from_binary_float}.rs`, `src/num.rs`
and the five public types of `src/bitstring/*.rs`.
-/
namespace Decstr.Model
open Decstr.Spec (Ty isDigit)

/-! ## The five types: binary buffer kind, exponent representation, text buffer -/

inductive OverflowErr where
  | wouldOverflow (max required : Nat)
  | exponentOutOfRange (max : Nat)
  | sizeMismatch (got required : Nat)
deriving Repr, DecidableEq, Inhabited

inductive Err where
  | parse (e : ParseErr)
  | overflow (e : OverflowErr)
deriving Repr, DecidableEq, Inhabited

/-- the exponent is an `i32` (machine arithmetic, saturating where the code saturates) or a `BigInt` -/
def _root_.Decstr.Spec.Ty.expIsI32 : Ty → Bool
  | .big => false
  | _ => true

/-- `try_with_at_least_storage_width_bytes` -/
def _root_.Decstr.Spec.Ty.withAtLeastBytes (T : Ty) (bytes : Nat) : Except OverflowErr Buf :=
  match T with
  | .b32 => if bytes > 4 then .error (.wouldOverflow 4 bytes) else .ok (Buf.zero 4)
  | .b64 => if bytes > 8 then .error (.wouldOverflow 8 bytes) else .ok (Buf.zero 8)
  | .b128 => if bytes > 16 then .error (.wouldOverflow 16 bytes) else .ok (Buf.zero 16)
  | .dyn => if bytes > 20 then .error (.wouldOverflow 20 bytes) else .ok (Buf.zero bytes)
  | .big => .ok (Buf.zero bytes)

/-- the text buffer `try_parse` streams into -/
def _root_.Decstr.Spec.Ty.textKind : Ty → BufKind
  | .b32 => .array 32 | .b64 => .array 64 | .b128 => .array 128 | .dyn => .array 128 | .big => .vec

def i32Min : Int := -2147483648
def i32Max : Int := 2147483647
def satI32 (x : Int) : Int := if x < i32Min then i32Min else if x > i32Max then i32Max else x

/-- `Integer::try_from_ascii` for `i32`: `checked_mul(10)` then `checked_add/sub` per digit -/
def i32FromAscii (neg : Bool) : List Nat → Int → Option Int
  | [], acc => some acc
  | d :: ds, acc =>
    let m := acc * 10
    if m < i32Min || m > i32Max then none
    else
      let v := if neg then m - (d - 48 : Nat) else m + (d - 48 : Nat)
      if v < i32Min || v > i32Max then none else i32FromAscii neg ds v

def bigFromAscii (neg : Bool) (ds : List Nat) : Int :=
  let n : Int := Spec.ofDigits (ds.map (· - 48))
  if neg then -n else n

/-- `try_exponent_from_ascii` -/
def _root_.Decstr.Spec.Ty.exponentFromAscii (T : Ty) (neg : Bool) (ds : List Nat) : Except OverflowErr Int :=
  if T.expIsI32 then
    match i32FromAscii neg ds 0 with
    | some e => .ok e
    | none => .error (.exponentOutOfRange 4)
  else .ok (bigFromAscii neg ds)

/-- `BinaryExponent::lower` (saturating for `i32`) -/
def _root_.Decstr.Spec.Ty.lower (T : Ty) (e : Int) (by_ : Nat) : Int := if T.expIsI32 then satI32 (e - by_) else e - by_
def _root_.Decstr.Spec.Ty.raise (T : Ty) (e : Int) (by_ : Nat) : Int := if T.expIsI32 then satI32 (e + by_) else e + by_

/-- `try_with_at_least_precision` (the `abs` inside the width formula saturates for `i32`) -/
def _root_.Decstr.Spec.Ty.withPrecision (T : Ty) (d : Nat) (e : Option Int) : Except OverflowErr Buf :=
  T.withAtLeastBytes (bytesForPrecision d e)

/-! ## `decimal_from_parsed` -/

def encodeFinite (T : Ty) (neg : Bool) (digits : List Nat) (exp : Int) : Except OverflowErr Buf :=
  match T.withPrecision digits.length (some exp) with
  | .error e => .error e
  | .ok buf =>
    let (buf, msd) := encodeSignificand buf digits
    let biased := biasOf buf.widthBits buf.precision + exp
    .ok (encodeCombinationFinite buf neg biased.toNat msd)

def fromParsed (T : Ty) : Parsed → Except OverflowErr Buf
  | .finite ⟨tb, sig, ex⟩ =>
    let text := tb.ascii
    let e0 : Except OverflowErr Int := match ex with
      | some e => T.exponentFromAscii e.neg (slice text e.range)
      | none => .ok 0
    match e0 with
    | .error err => .error err
    | .ok e0 =>
      match sig.point with
      | some pt =>
        let intDigits := slice text ⟨sig.range.start, pt.start⟩
        let fracDigits := slice text ⟨pt.stop, sig.range.stop⟩
        encodeFinite T sig.neg (intDigits ++ fracDigits) (T.lower e0 fracDigits.length)
      | none => encodeFinite T sig.neg (slice text sig.range) e0
  | .infinity neg =>
    match T.withAtLeastBytes 4 with
    | .ok buf => .ok (encodeInfinity buf neg)
    | .error e => .error e
  | .nan ⟨tb, signaling, neg, payload⟩ =>
    -- an empty payload is treated as none
    match payload.filter (fun s => s.range.stop > s.range.start) with
    | some s =>
      let ds := slice tb.ascii s.range
      match T.withPrecision (ds.length + 1) none with
      | .error e => .error e
      | .ok buf => .ok (encodeNan (encodeSignificand buf ds).1 neg signaling)
    | none =>
      match T.withAtLeastBytes 4 with
      | .ok buf => .ok (encodeNan buf neg signaling)
      | .error e => .error e

def liftParse {α} : Except ParseErr α → Except Err α
  | .ok a => .ok a
  | .error e => .error (.parse e)
def liftOverflow {α} : Except OverflowErr α → Except Err α
  | .ok a => .ok a
  | .error e => .error (.overflow e)

/-- `T::try_parse_str` -/
def tryParseStr (T : Ty) (input : List Nat) : Except Err Buf :=
  match parseStr input with
  | .ok p => liftOverflow (fromParsed T p)
  | .error e => .error (.parse e)

/-- `T::try_parse` of a `Display` writing `frags` -/
def tryParse (T : Ty) (frags : List (List Nat)) (fault : Fault) : Except Err Buf :=
  match parseFmt T.textKind frags fault with
  | .ok p => liftOverflow (fromParsed T p)
  | .error e => .error (.parse e)

/-! ## `decimal_to_fmt` -/

def unbiasedExponent (b : Buf) : Int × Nat :=
  let (biased, msd) := decodeCombinationFinite b
  ((biased : Int) - biasOf b.widthBits b.precision, msd)

structure LeadingZeroes where
  skipped : Nat
  partialDeclet : Option (List Nat)      -- `declet[idx..]`: the digits from the first non-zero one
deriving Repr, DecidableEq

/-- `skip_leading_zeroes`: returns what was skipped and the declets left in the iterator -/
def skipLeadingZeroes (msdAscii : Nat) (declets : List (List Nat)) : LeadingZeroes × List (List Nat) :=
  if msdAscii != 48 then (⟨2, some [msdAscii]⟩, declets)
  else
    let rec go (skipped : Nat) : List (List Nat) → LeadingZeroes × List (List Nat)
      | [] => (⟨skipped, none⟩, [])
      | d :: rest =>
        if d = [48, 48, 48] then go (skipped + 3) rest
        else
          let i := (d.takeWhile (· == 48)).length
          (⟨skipped + i, some (d.drop i)⟩, rest)
    go 3 declets

/-- `write_decimal_digits`: output, new `written`, whether the point was written -/
def writeDecimalDigits (digits : List Nat) (total written : Nat) : List Nat × Nat × Bool :=
  if written + digits.length ≤ total then (digits, written + digits.length, false)
  else if written = total then (46 :: digits, written + digits.length, true)
  else
    let dp := total - written
    (digits.take dp ++ [46] ++ digits.drop dp, written + digits.length, true)

def writeAllAsInteger (lz : LeadingZeroes) (declets : List (List Nat)) (written : Nat) : List Nat :=
  let first := lz.partialDeclet.getD []
  let body := first ++ declets.flatten
  if written + body.length = 0 then [48] else body

def intToAscii (e : Int) : List Nat := Spec.toDecimal e

def writeAllAsScientific (T : Ty) (lz : LeadingZeroes) (declets : List (List Nat)) (exponent : Int) : List Nat :=
  let (head, written, rest) :=
    match lz.partialDeclet with
    | some ds =>
      let (o, w, wrotePoint) := writeDecimalDigits ds 1 0
      if wrotePoint then (o, w, declets)
      else match declets with
        | d :: rest => (o ++ [46] ++ d, w + 3, rest)
        | [] => (o, w, [])
    | none => ([], 0, declets)
  let body := head ++ rest.flatten
  let written := written + rest.flatten.length
  let mark := if written = 0 then [48, 101] else [101]
  body ++ mark ++ intToAscii (T.raise exponent (written - 1))

/-- the digits before and after the point for `±123.456`: the loop over `write_decimal_digits` -/
def writeWithPoint (total : Nat) : List (List Nat) → Nat → Bool → List Nat
  | [], _, _ => []
  | d :: rest, written, wrote =>
    if wrote then d ++ writeWithPoint total rest (written + d.length) true
    else
      let (o, w, p) := writeDecimalDigits d total written
      o ++ writeWithPoint total rest w p

/-- the finite arm of `decimal_to_fmt` after the sign: layout chosen from the unbiased exponent, the most
    significant digit (ASCII) and the trailing declets (each three ASCII digits, most significant first) -/
def fmtFinite (T : Ty) (precision : Nat) (msdAscii : Nat) (declets : List (List Nat)) (exponent : Int) : List Nat :=
  let inI32 : Bool := T.expIsI32 || (decide (i32Min ≤ exponent) && decide (exponent ≤ i32Max))
  if exponent = 0 then
    let (lz, rest) := skipLeadingZeroes msdAscii declets
    writeAllAsInteger lz rest 0
  else if exponent < 0 ∧ inI32 = true then
    let (lz, rest) := skipLeadingZeroes msdAscii declets
    let nonZero : Int := ((precision + 2 : Nat) : Int) - lz.skipped
    let integerDigits := nonZero + exponent
    if integerDigits > 0 then
      let groups := (match lz.partialDeclet with | some d => [d] | none => []) ++ rest
      writeWithPoint integerDigits.toNat groups 0 false
    else
      let leadingZeroes := integerDigits.natAbs
      if leadingZeroes + 2 ≤ 7 ∧ 1 + leadingZeroes + nonZero.toNat ≤ precision then
        [48, 46] ++ List.replicate leadingZeroes 48 ++ writeAllAsInteger lz rest leadingZeroes
      else writeAllAsScientific T lz rest exponent
  else
    let (lz, rest) := skipLeadingZeroes msdAscii declets
    writeAllAsScientific T lz rest exponent

/-- the NaN arm after the sign: keyword and, if non-zero, the payload in brackets -/
def fmtNan (quiet : Bool) (declets : List (List Nat)) : List Nat :=
  let word := if quiet then [110, 97, 110] else [115, 110, 97, 110]
  let payload := declets.flatten.dropWhile (· == 48)
  word ++ (if payload.isEmpty then [] else [40] ++ payload ++ [41])

/-- `decimal_to_fmt` -/
def toText (T : Ty) (b : Buf) : List Nat :=
  let sign := if isSignNegative b then [45] else []
  if isFinite b then
    let (exponent, msd) := unbiasedExponent b
    sign ++ fmtFinite T b.precision (msd + 48) (decodeDeclets b) exponent
  else if isInfinite b then sign ++ [105, 110, 102]
  else sign ++ fmtNan (isQuietNan b) (decodeDeclets b)

/-! ## Integers (`from_int.rs`, `num.rs`) -/

/-- `Integer::try_from_ascii` for a primitive integer: checked multiply-then-add per digit -/
def intFromAscii (I : Spec.IntTy) (neg : Bool) : List Nat → Int → Option Int
  | [], acc => some acc
  | d :: ds, acc =>
    if neg && !I.signed then none
    else
      let m := acc * 10
      if !I.contains m then none
      else
        let v := if neg then m - (d - 48 : Nat) else m + (d - 48 : Nat)
        if !I.contains v then none else intFromAscii I neg ds v

/-- `try_from_ascii` continued over `k` further `'0'` digits -/
def intPushZeros (I : Spec.IntTy) (neg : Bool) : Nat → Int → Option Int
  | 0, acc => some acc
  | k + 1, acc =>
    if neg && !I.signed then none
    else if acc = 0 then some 0          -- 0·10 = 0: the remaining zeros change nothing (shortcut, same result)
    else
      let m := acc * 10
      if !I.contains m then none else intPushZeros I neg k m

def allDigits (b : Buf) (msd : Nat) : List Nat := (msd + 48) :: (decodeDeclets b).flatten

/-- `decimal_to_int` on the decoded parts: sign, all `precision` digits (ASCII, most significant first),
    unbiased exponent, and whether the decimal is finite -/
def toIntCore (T : Ty) (I : Spec.IntTy) (neg : Bool) (digits : List Nat) (exponent : Int) (precision : Nat) (fin : Bool) : Option Int :=
  let inI32 := T.expIsI32 || (decide (i32Min ≤ exponent) && decide (exponent ≤ i32Max))
  if neg && !I.signed then
    -- unsigned targets refuse a negative sign before looking at any digit, in every arm
    none
  else if inI32 && exponent = 0 then intFromAscii I neg digits 0
  else if inI32 && exponent > 0 then
    -- `digits.chain(iter::repeat(b'0').take(exponent))`: the zeros are fed after the digits
    match intFromAscii I neg digits 0 with
    | some acc => intPushZeros I neg exponent.toNat acc
    | none => none
  else if inI32 && exponent.natAbs < precision then
    let k := precision - exponent.natAbs
    match intFromAscii I neg (digits.take k) 0 with
    | none => none
    | some i => if (digits.drop k).all (· == 48) then some i else none
  else
    if fin && digits.all (· == 48) then intFromAscii I neg [48] 0 else none

def toInt (T : Ty) (b : Buf) (I : Spec.IntTy) : Option Int :=
  let (exponent, msd) := unbiasedExponent b
  toIntCore T I (isSignNegative b) (allDigits b msd) exponent b.precision (isFinite b)

/-- which conversions are offered as infallible (`i2d!` / `f2d!` / `d2f!`): an error there is a panic -/
def _root_.Decstr.Spec.Ty.intInfallible (T : Ty) (I : Spec.IntTy) : Bool :=
  match T with
  | .b32 => I.bits ≤ 16
  | .b64 => I.bits ≤ 32
  | .b128 => I.bits ≤ 64
  | _ => true

def _root_.Decstr.Spec.Ty.floatInfallible (T : Ty) (B : Spec.BinFmt) : Bool :=
  match T with
  | .b32 => false
  | .b64 => B.prec == 24
  | _ => true

/-- `FiniteParser::parse_str` on text produced by itoa / ryu -/
def parseFiniteStr (input : List Nat) : Except ParseErr Parsed :=
  match (FiniteParser.begin (TextBuf.new .str input)).parseAscii input with
  | .ok p => p.finish.map .finite
  | .error e => .error e

inductive Res where
  | ok (b : Buf)
  | none
  | panic
deriving Repr, DecidableEq, Inhabited

def fromText (T : Ty) (infallible : Bool) (text : List Nat) : Res :=
  match parseFiniteStr text with
  | .error _ => .panic              -- `.expect("… can always be parsed")`
  | .ok p =>
    match fromParsed T p with
    | .ok b => .ok b
    | .error _ => if infallible then .panic else .none

/-- `T::from_<int>(v)` -/
def fromInt (T : Ty) (I : Spec.IntTy) (v : Int) : Res := fromText T (T.intInfallible I) (Spec.toDecimal v)

/-! ## Binary floats (`from_binary_float.rs`, `num.rs`) -/

def scratchCap : Nat := 25

/-- the text `parse_ascii` in `num.rs` builds in its 25-byte scratch buffer; `none` = it does not fit -/
def floatText (neg : Bool) (digits : List Nat) (exponent : Int) : Option (List Nat) :=
  let sig := digits.dropWhile (· == 48)
  let sig := if sig.isEmpty then [48] else sig
  let head := (if neg then [45] else []) ++ sig
  -- every push is preceded by a test that one byte is free; `e` needs one more
  if head.length + 1 > scratchCap then none
  else
    let body := head ++ [101]
    -- the exponent arrives as one write for the sign and one for the digits, each with its own capacity test
    let etext := intToAscii exponent
    if body.length + etext.length > scratchCap then none else some (body ++ etext)

/-- `str::parse::<f32/f64>` on `[-]digits e [-]digits`: correctly rounded, overflow gives infinity -/
def parseFloatBits (B : Spec.BinFmt) (text : List Nat) : Option Nat :=
  match Spec.parse text with
  | some (.finite s i fr ex) =>
    let c := Spec.ofDigits (i ++ fr)
    let q : Int := Spec.expValue ex - fr.length
    let sgn := if s then B.signMask else 0
    match Spec.rneDecSafe B c q with
    | some m => some (sgn + m)
    | none => some (sgn + B.infBits)
  | _ => none

def quietNanBits (B : Spec.BinFmt) : Nat := B.infBits + 2 ^ (B.prec - 2)
/-- `F32_NAN_PAYLOAD_MASK` has 23 bits (it includes the quiet bit), `F64_NAN_PAYLOAD_MASK` has 51 -/
def nanPayloadMask (B : Spec.BinFmt) : Nat := if B.prec = 24 then 2 ^ 23 - 1 else 2 ^ 51 - 1

/-- the finite arm of `decimal_to_binary_float`: re-serialise, parse, refuse infinities -/
def toFloatFinite (B : Spec.BinFmt) (neg : Bool) (digits : List Nat) (exponent : Int) : Option Nat :=
  match floatText neg digits exponent with
  | none => none
  | some text =>
    match parseFloatBits B text with
    | some bits => if B.isInf bits || B.isNan bits then none else some bits
    | none => none

/-- the NaN arm: quiet NaN carrying as much of the payload as fits, with the decimal's sign -/
def toFloatNan (B : Spec.BinFmt) (neg : Bool) (payloadDigits : List Nat) : Nat :=
  let I : Spec.IntTy := ⟨true, B.width⟩
  let payload := (intFromAscii I false payloadDigits 0).getD 0
  let bits := if payload = 0 then quietNanBits B else quietNanBits B ||| (payload.toNat % 2 ^ B.width &&& nanPayloadMask B)
  (if neg then B.signMask else 0) + bits

/-- `decimal_to_binary_float`: `none` = `Err` -/
def toFloat (b : Buf) (B : Spec.BinFmt) : Option Nat :=
  let neg := isSignNegative b
  if isFinite b then
    let (exponent, msd) := unbiasedExponent b
    toFloatFinite B neg (allDigits b msd) exponent
  else if isInfinite b then some ((if neg then B.signMask else 0) + B.infBits)
  else some (toFloatNan B neg (decodeDeclets b).flatten)

/-- `T::from_f32/from_f64`; `ryu` is the text `ryu::Buffer::format_finite` returned for a finite float -/
def fromFloat (T : Ty) (B : Spec.BinFmt) (bits : Nat) (ryu : List Nat) : Res :=
  let neg := bits ≥ B.signMask
  let inf := T.floatInfallible B
  let wrap : Except OverflowErr Buf → Res := fun r => match r with
    | .ok b => .ok b
    | .error _ => if inf then .panic else .none
  if B.isNan bits then wrap (fromParsed T (.nan ⟨TextBuf.new (.array scratchCap) [], false, neg, none⟩))
  else if B.isInf bits then wrap (fromParsed T (.infinity neg))
  else fromText T inf ryu

/-! ## The `TryFrom<int>` / `TryFrom<float>` impls: the error of `decimal_from_parsed` is returned, not dropped -/

/-- `none` = panic (`expect`); for the pairs that offer `From`, `TryFrom` is the blanket impl over it -/
def fromTextT (T : Ty) (infallible : Bool) (text : List Nat) : Option (Except OverflowErr Buf) :=
  match parseFiniteStr text with
  | .error _ => none
  | .ok p =>
    match fromParsed T p with
    | .ok b => some (.ok b)
    | .error e => if infallible then none else some (.error e)

/-- `<T as TryFrom<int>>::try_from(v)` -/
def fromIntT (T : Ty) (I : Spec.IntTy) (v : Int) : Option (Except OverflowErr Buf) :=
  fromTextT T (T.intInfallible I) (Spec.toDecimal v)

/-- `<T as TryFrom<f32|f64>>::try_from(f)` -/
def fromFloatT (T : Ty) (B : Spec.BinFmt) (bits : Nat) (ryu : List Nat) : Option (Except OverflowErr Buf) :=
  let neg := bits ≥ B.signMask
  let inf := T.floatInfallible B
  let wrap : Except OverflowErr Buf → Option (Except OverflowErr Buf) := fun r => match r with
    | .ok b => some (.ok b)
    | .error e => if inf then none else some (.error e)
  if B.isNan bits then wrap (fromParsed T (.nan ⟨TextBuf.new (.array scratchCap) [], false, neg, none⟩))
  else if B.isInf bits then wrap (fromParsed T (.infinity neg))
  else fromTextT T inf ryu

/-! ## Byte-level API (`bitstring/*.rs`) -/

def tryFromLeBytes (T : Ty) (bytes : List Nat) : Except OverflowErr Buf :=
  let len := bytes.length
  if len = 0 || len % 4 != 0 then .error (.sizeMismatch len (len + 4 - len % 4))
  else
    match T.withAtLeastBytes len with
    | .error e => .error e
    | .ok buf => if buf.len != len then .error (.sizeMismatch buf.len len) else .ok (Buf.ofBytes bytes)

/-- the outcome of `try_from_le_bytes` as a function of the slice's length alone (`tryFromLeBytes` looks at nothing else
    before it copies the bytes) -/
def tryFromLeLen (T : Ty) (len : Nat) : Except OverflowErr Unit :=
  if len = 0 || len % 4 != 0 then .error (.sizeMismatch len (len + 4 - len % 4))
  else
    match T.withAtLeastBytes len with
    | .error e => .error e
    | .ok buf => if buf.len != len then .error (.sizeMismatch buf.len len) else .ok ()

/-! ## `encode_max` / `encode_min` (`binary.rs`) -/

def encodeMax (len : Nat) (neg : Bool) : Buf :=
  let b := Buf.zero len
  let exp := emaxOf b.widthBits - (b.precision - 1 : Nat)
  let (b, msd) := encodeSignificandRepeat b 57
  encodeCombinationFinite b neg (biasOf b.widthBits b.precision + exp).toNat msd

def encodeMin (len : Nat) (neg : Bool) : Buf :=
  let b := Buf.zero len
  let exp := (1 - emaxOf b.widthBits) + 1 - (b.precision : Nat)
  let (b, msd) := encodeSignificand b [49]
  encodeCombinationFinite b neg (biasOf b.widthBits b.precision + exp).toNat msd

end Decstr.Model
