import Decstr.Model.ExecApi
import Decstr.Model.Api
/-!
# Model.ExecHooks — the checked model's answer to the `x_<name>` requests of work package HOOKS

The Rust harness (`harness/src/hooks.rs`, built with `--cfg decstr_verif`) calls crate-internal functions directly, on
in-contract and out-of-contract arguments, in both build profiles, and prints `value | panic`.  Here the same request
is answered by the **checked model** (`Model/Exec*.lean`, unchanged): `.error site` is `panic`, `.ok v` is rendered
exactly as the harness renders the Rust value.  Comparing the two validates the *placement* of the panic sites.

Where a hooked Rust function has no separate `…C` counterpart because the model inlines it, the model's pieces are
composed here the way the Rust code composes them (each such place is marked `composed:`).

Core Lean only.
-/
namespace Decstr.Model.Exec.Hooks
open Decstr.Model Decstr.Model.Exec
open Decstr.Spec (Ty)

/-! ## argument parsing / rendering (the line protocol's conventions) -/

def hexVal (c : Char) : Option Nat :=
  if '0' ≤ c && c ≤ '9' then some (c.toNat - 48)
  else if 'a' ≤ c && c ≤ 'f' then some (c.toNat - 87)
  else if 'A' ≤ c && c ≤ 'F' then some (c.toNat - 55)
  else none

def unhexList : List Char → Option (List Nat)
  | [] => some []
  | a :: b :: r => do
      let x ← hexVal a; let y ← hexVal b; let rest ← unhexList r
      pure ((16 * x + y) :: rest)
  | _ => none

def unhex (s : String) : Option (List Nat) := if s == "-" then some [] else unhexList s.toList

def hexDigit (n : Nat) : Char := if n < 10 then Char.ofNat (48 + n) else Char.ofNat (87 + n)
def hex (bs : List Nat) : String :=
  if bs.isEmpty then "-" else String.ofList (bs.flatMap fun b => [hexDigit (b / 16 % 16), hexDigit (b % 16)])

def natHex (n w : Nat) : String := String.ofList ((List.range w).reverse.map fun i => hexDigit (n / 16 ^ i % 16))

def hexNat (s : String) : Option Nat := s.toList.foldlM (fun acc c => (hexVal c).map (16 * acc + ·)) 0

def parseInt (s : String) : Option Int :=
  if s.startsWith "-" then (s.drop 1).toNat?.map fun n => - (n : Int) else s.toNat?.map Int.ofNat

def bit (s : String) : Option Bool := if s == "1" then some true else if s == "0" then some false else none
def b2s (b : Bool) : String := if b then "1" else "0"

def chunks (s : String) : Option (List (List Nat)) := (s.splitOn ",").mapM unhex

def range (s : String) : Option Range :=
  match s.splitOn "-" with
  | [a, z] => do pure ⟨← a.toNat?, ← z.toNat?⟩
  | _ => none

def optRange (s : String) : Option (Option Range) := if s == "_" then some none else (range s).map some

/-- buffer type token ↦ exponent representation (`fix<N>` = `FixedBinaryBuf<N, i32>`) -/
def repOf (ty : String) : Option ExpRep :=
  match Ty.ofName ty with
  | some T => some T.expRep
  | none => if ty.startsWith "fix" && ((ty.drop 3).toNat?).isSome then some .i32Fixed else none

/-- the `Ty` whose *codec behaviour* (exponent representation, saturation) a buffer token has; `fix<N>` behaves like the
    fixed `i32` types.  Only used with functions that take the buffer as an argument. -/
def tyOfBuf (ty : String) : Option Ty :=
  match Ty.ofName ty with
  | some T => some T
  | none => if ty.startsWith "fix" && ((ty.drop 3).toNat?).isSome then some .b32 else none

/-- exponent type token of `x_emax` & co. -/
def repOfExp (ety : String) : Option ExpRep :=
  if ety == "i32" then some .i32Fixed else if ety == "big" then some .big else none

def showErr (e : OverflowErr) : String :=
  let f := errFacts (.overflow e)
  s!"err:{f.kind}:{f.a}:{f.b}"

def showPErr (e : ParseErr) : String :=
  let f := errFacts (.parse e)
  s!"perr:{f.kind}:{f.a}"

def showBytesOrErr : Except OverflowErr Buf → String
  | .ok b => hex b.toBytes
  | .error e => showErr e

def showSig (s : PSignificand) : String :=
  let p := match s.point with
    | some r => s!"{r.start}-{r.stop}"
    | none => "_"
  s!"{b2s s.neg},{s.range.start}-{s.range.stop},{p}"

def showParsed : Parsed → String
  | .finite ⟨tb, sig, ex⟩ =>
    let e := match ex with
      | some e => s!"{b2s e.neg},{e.range.start}-{e.range.stop}"
      | none => "_"
    s!"fin/{hex tb.ascii}/{showSig sig}/{e}"
  | .infinity neg => s!"inf/{b2s neg}"
  | .nan ⟨tb, signaling, neg, payload⟩ =>
    let p := match payload with
      | some s => showSig s
      | none => "_"
    s!"nan/{hex tb.ascii}/{b2s neg}/{b2s signaling}/{p}"

def showOpt (v : Option String) : String :=
  match v with
  | some s => s!"some:{s}"
  | none => "none"

/-! ## text: parsers driven directly -/

def bufKind (s : String) : Option BufKind :=
  if s == "str" then some .str
  else if s == "vec" then some .vec
  else if s.startsWith "a" then ((s.drop 1).toNat?).map .array
  else none

inductive Op where
  | parseAscii (frag : List Nat)
  | checkedDigit (d : Nat)
  | checkedNegative
  | checkedBeginExponent

def parseOps (s : String) : Option (List Op) :=
  if s == "." then some []
  else (s.splitOn ",").mapM fun t =>
    if t == "n" then some .checkedNegative
    else if t == "e" then some .checkedBeginExponent
    else if t.startsWith "a" then (unhex (t.drop 1).toString).map .parseAscii
    else if t.startsWith "d" then
      match unhex (t.drop 1).toString with
      | some [d] => some (.checkedDigit d)
      | _ => none
    else none

/-- composed: `checked_push_significand_digit` & co. (finite.rs:53–105):
    `if self.buf.remaining_capacity() == Some(0) { Err(buffer_too_small) } else { self.<op>(); Ok(()) }` -/
def checkedC (checks : Bool) (p : FiniteParser) (op : FiniteParser → Chk FiniteParser) : Chk (Except ParseErr FiniteParser) := do
  let r ← remainingC checks p.buf
  if r == some 0 then .ok (.error .bufferTooSmall)
  else do
    let p' ← op p
    .ok (.ok p')

/-- the state of whichever parser is being driven -/
inductive PState where
  | dec (p : DecimalParser)
  | fin (p : FiniteParser)
  | nan (p : NanParser)
  | inf (p : InfinityParser)

def PState.begin (parser : String) (b : TextBuf) : Option PState :=
  if parser == "dec" then some (.dec (DecimalParser.begin b))
  else if parser == "fin" then some (.fin (FiniteParser.begin b))
  else if parser == "nan" then some (.nan { buf := b })
  else if parser == "inf" then some (.inf { buf := b })
  else none

/-- one call; `none` = the operation does not exist on that parser -/
def PState.step (checks : Bool) : PState → Op → Option (Chk (Except ParseErr PState))
  | .dec p, .parseAscii f => some ((DecimalParserC.parseAscii checks p f).map (·.map .dec))
  | .fin p, .parseAscii f => some ((FiniteParserC.parseAscii checks p f).map (·.map .fin))
  | .fin p, .checkedDigit d => some ((checkedC checks p (FiniteParserC.pushSignificandDigit checks · d)).map (·.map .fin))
  | .fin p, .checkedNegative => some ((checkedC checks p FiniteParserC.significandNegative).map (·.map .fin))
  | .fin p, .checkedBeginExponent => some ((checkedC checks p FiniteParserC.beginExponent).map (·.map .fin))
  | .nan p, .parseAscii f => some ((NanParserC.parseAscii checks p f).map (·.map .nan))
  | .inf p, .parseAscii f => some ((InfinityParserC.parseAscii checks p f).map (·.map .inf))
  | _, _ => none

/-- `end()` -/
def PState.finish : PState → Except ParseErr Parsed
  | .dec p => p.finish
  | .fin p => p.finish.map .finite
  | .nan p => p.finish.map .nan
  | .inf p => p.finish.map .infinity

/-- the calls in order up to the first `Err`, then `end()` -/
def runOps (checks : Bool) : PState → List Op → Option (Chk (Except ParseErr Parsed))
  | st, [] => some (.ok st.finish)
  | st, op :: rest =>
    match st.step checks op with
    | none => none
    | some (.error site) => some (.error site)
    | some (.ok (.error e)) => some (.ok (.error e))
    | some (.ok (.ok st')) => runOps checks st' rest

def runParser (checks : Bool) (parser buf text ops : String) : Option (Chk (Except ParseErr Parsed)) := do
  let kind ← bufKind buf
  let text ← unhex text
  let ops ← parseOps ops
  let st ← PState.begin parser (TextBuf.new kind text)
  runOps checks st ops

def parseStrWith (checks : Bool) (parser : String) (text : List Nat) : Option (Chk (Except ParseErr Parsed)) :=
  if parser == "dec" then some (parseStrC checks text)
  else if parser == "fin" then some (parseFiniteStrC checks text)
  else none

def showParseAnswer (r : Chk (Except ParseErr Parsed)) : Chk String :=
  r.map fun
    | .ok p => showParsed p
    | .error e => showPErr e

/-- parse, then `decimal_from_parsed` -/
def convAnswer (T : Ty) (checks : Bool) (r : Chk (Except ParseErr Parsed)) : Chk String := do
  let r ← r
  match r with
  | .error e => .ok (showPErr e)
  | .ok p => do
    let b ← fromParsedC T checks p
    .ok (showBytesOrErr b)

/-- the `ArrayTextBuf<64>` holding `text` that the hand-built `ParsedDecimal`s carry -/
def rawBuf (text : List Nat) : TextBuf := ⟨.array 64, text, text.length⟩

/-! ## the answer -/

/-- composed: `emin` (exponent.rs:179) = `N::from_i32(1) - emax(storage_width_bits)`, as in `encodeMinC` -/
def eminC (r : ExpRep) (checks : Bool) (widthBits : Nat) : Chk Int := do
  let e ← emaxC r checks widthBits
  subE r checks "exponent.rs:181 1 - emax" 1 e

/-- composed: `precision_digits(bits)` for a bit count that is not a whole number of bytes (same expression as `precisionC`) -/
def precisionBitsC (checks : Bool) (bits : Nat) : Chk Nat :=
  if bits % 8 = 0 then precisionC checks (Buf.zero (bits / 8))
  else subUsize checks "significand.rs:834 9 * storage_width_bits / 32 - 2" (9 * bits / 32) 2

/-- composed: `try_with_exactly_storage_width_bytes` (buf.rs:84) over `try_with_at_least_storage_width_bytes` -/
def withExactlyBytes (T : Ty) (n : Nat) : Except OverflowErr Buf :=
  match T.withAtLeastBytes n with
  | .error e => .error e
  | .ok buf => if buf.len != n then .error (.sizeMismatch buf.len n) else .ok buf

/-- composed: `decimal_from_int` (from_int.rs:97) keeping the `OverflowError` (`fromTextC` turns it into `none`) -/
def fromTextKeepC (T : Ty) (checks : Bool) (text : List Nat) : Chk (Except OverflowErr Buf) := do
  let r ← parseFiniteStrC checks text
  match r with
  | .error _ => .error "convert/from_int.rs:102 expect(\"primitive integers can always be parsed\")"
  | .ok p => fromParsedC T checks p

/-- composed: `decimal_from_binary_float` (from_binary_float.rs:79) keeping the `OverflowError` (as `fromFloatC` without the
    `expect` of the infallible wrappers) -/
def fromFloatKeepC (T : Ty) (checks : Bool) (B : Spec.BinFmt) (bits : Nat) (ryu : List Nat) : Chk (Except OverflowErr Buf) :=
  let neg := bits ≥ B.signMask
  if B.isNan bits then fromParsedC T checks (.nan ⟨TextBuf.new (.array scratchCap) [], false, neg, none⟩)
  else if B.isInf bits then fromParsedC T checks (.infinity neg)
  else fromTextKeepC T checks ryu

/-- The checked model's answer: `none` = malformed / not modelled; `.error site` = panic at `site`;
    `.ok s` = the rendering after `ok:`. -/
def answerHookC (name : String) (checks : Bool) (args : List String) : Option (Chk String) :=
  match name, args with
  | "x_enc_sig", [ty, bytes, cs] => do
      let _ ← repOf ty; let bytes ← unhex bytes; let cs ← chunks cs
      pure ((encodeSignificandC checks (Buf.ofBytes bytes) cs).map fun (b, msd) => s!"{hex b.toBytes}:{msd}")
  | "x_enc_sig_rep", [ty, bytes, digit] => do
      let _ ← repOf ty; let bytes ← unhex bytes; let digit ← digit.toNat?
      pure ((encodeSignificandRepeatC checks (Buf.ofBytes bytes) digit).map fun (b, msd) => s!"{hex b.toBytes}:{msd}")
  | "x_dec_declets", [ty, bytes] => do
      let _ ← repOf ty; let bytes ← unhex bytes
      pure ((decodeDecletsC checks (Buf.ofBytes bytes)).map fun ds => hex ds.flatten)
  | "x_precision", [bits] => do
      let bits ← bits.toNat?
      pure ((precisionBitsC checks bits).map toString)
  | "x_msd", ["ascii", v] => do
      let v ← v.toNat?
      pure ((asciiToBcdC checks v).map toString)
  | "x_msd", ["bcd", v] => do
      let v ← v.toNat?
      pure ((bcdToAsciiC checks v).map toString)
  | "x_enc_comb", [ty, bytes, neg, exp, msd] => do
      let r ← repOf ty; let bytes ← unhex bytes; let neg ← bit neg; let exp ← parseInt exp; let msd ← msd.toNat?
      pure ((encodeCombinationFiniteC r checks (Buf.ofBytes bytes) neg exp msd).map fun b => hex b.toBytes)
  | "x_dec_comb", [ty, bytes] => do
      let r ← repOf ty; let bytes ← unhex bytes
      pure ((decodeCombinationFiniteC r checks (Buf.ofBytes bytes)).map fun (e, msd) => s!"{e}:{msd}")
  | "x_enc_inf", [ty, bytes, neg] => do
      let _ ← repOf ty; let bytes ← unhex bytes; let neg ← bit neg
      pure ((encodeInfinityC checks (Buf.ofBytes bytes) neg).map fun b => hex b.toBytes)
  | "x_enc_nan", [ty, bytes, neg, sig] => do
      let _ ← repOf ty; let bytes ← unhex bytes; let neg ← bit neg; let sig ← bit sig
      pure ((encodeNanC checks (Buf.ofBytes bytes) neg sig).map fun b => hex b.toBytes)
  | "x_is", [ty, bytes, which] => do
      let _ ← repOf ty; let bytes ← unhex bytes
      let b := Buf.ofBytes bytes
      let r ← (match which with
        | "finite" => some (isFiniteC checks b)
        | "infinite" => some (isInfiniteC checks b)
        | "nan" => some (isNanC checks b)
        | "quiet_nan" => some (isQuietNanC checks b)
        | "signaling_nan" => some (isSignalingNanC checks b)
        | "sign_negative" => some (isSignNegativeC checks b)
        | _ => none)
      pure (r.map b2s)
  | "x_emax", [ety, bits] => do
      let r ← repOfExp ety; let bits ← bits.toNat?
      pure ((emaxC r checks bits).map toString)
  | "x_emin", [ety, bits] => do
      let r ← repOfExp ety; let bits ← bits.toNat?
      pure ((eminC r checks bits).map toString)
  | "x_bias", [ety, bits, prec] => do
      let r ← repOfExp ety; let bits ← bits.toNat?; let prec ← prec.toNat?
      pure ((biasC r checks bits prec).map toString)
  | "x_add_bias", [ty, bytes, exp] => do
      let r ← repOf ty; let bytes ← unhex bytes; let exp ← parseInt exp
      pure ((addBiasC r checks (Buf.ofBytes bytes) exp).map toString)
  | "x_sub_bias", [ty, bytes, exp] => do
      let r ← repOf ty; let bytes ← unhex bytes; let exp ← parseInt exp
      pure ((subBiasC r checks (Buf.ofBytes bytes) exp).map toString)
  | "x_emax_of", [ty, bytes, min] => do
      let r ← repOf ty; let bytes ← unhex bytes; let min ← bit min
      let w := (Buf.ofBytes bytes).widthBits
      pure ((if min then eminC r checks w else emaxC r checks w).map toString)
  | "x_geom", [ty, bytes, which] => do
      let _ ← repOf ty; let bytes ← unhex bytes
      let b := Buf.ofBytes bytes
      let r : Chk Nat ← (match which with
        | "storage_width_bits" => some (.ok b.widthBits)
        | "precision_digits" => some (precisionC checks b)
        | "trailing_significand_digits" => some (trailingDigitsC checks b)
        | "trailing_significand_width_bits" => some (trailingBitsC checks b)
        | "combination_width_bits" => some (.ok b.combinationBits)
        | "exponent_width_bits" => some (exponentBitsC checks b)
        -- composed: buf.rs:178 `combination_width_bits() - 5` (`bit_width / 16 + 9 - 5`: cannot underflow)
        | "trailing_exponent_width_bits" => some (subUsize checks "buf.rs:178 combination_width_bits() - 5" b.combinationBits 5)
        | _ => none)
      pure (r.map toString)
  | "x_min_width_digits", [d] => do
      let d ← d.toNat?
      pure (.ok (toString (widthForDigits d)))
  | "x_min_width_exp", [ety, e] => do
      let _ ← repOfExp ety; let e ← parseInt e
      pure (.ok (toString (widthForExponent e)))
  | "x_with_precision", [ty, d, exp] => do
      let T ← Ty.ofName ty; let d ← d.toNat?
      let e ← (if exp == "_" then some none else (parseInt exp).map some)
      pure ((withPrecisionC T checks d e).map showBytesOrErr)
  | "x_with_bytes", [ty, n, exactly] => do
      let T ← Ty.ofName ty; let n ← n.toNat?; let exactly ← bit exactly
      pure (.ok (showBytesOrErr (if exactly then withExactlyBytes T n else T.withAtLeastBytes n)))
  | "x_exp_from_ascii", [ty, neg, ascii] => do
      let T ← Ty.ofName ty; let neg ← bit neg; let ascii ← unhex ascii
      pure ((exponentFromAsciiC T checks neg ascii).map fun
        | .ok e => toString e
        | .error e => showErr e)
  | "x_encode_max", [ty, len, neg, min] => do
      let r ← repOf ty; let len ← len.toNat?; let neg ← bit neg; let min ← bit min
      pure ((if min then encodeMinC r checks len neg else encodeMaxC r checks len neg).map fun b => hex b.toBytes)
  | "x_int_from_ascii", [ity, neg, ascii] => do
      let I ← Spec.IntTy.ofName ity; let neg ← bit neg; let ascii ← unhex ascii
      pure ((intFromAsciiC checks I neg ascii 0).map fun v => showOpt (v.map toString))
  | "x_int_from_le", [ety, bytes] => do
      let r ← repOfExp ety; let bytes ← unhex bytes
      pure ((fromLeBytesC r (Spec.ofLeBytes bytes) bytes.length).map toString)
  | "x_float_from_ascii", [fty, neg, ascii, exp] => do
      let B ← Spec.BinFmt.ofName fty; let neg ← bit neg; let ascii ← unhex ascii; let exp ← parseInt exp
      pure ((floatTextC checks neg ascii exp).map fun t =>
        showOpt ((t.bind (parseFloatBits B)).map fun bits => natHex bits (B.width / 4)))
  | "x_parse", [parser, buf, text, ops] => do
      let r ← runParser checks parser buf text ops
      pure (showParseAnswer r)
  | "x_parse_str", [parser, text] => do
      let text ← unhex text
      let r ← parseStrWith checks parser text
      pure (showParseAnswer r)
  | "x_parse_conv", [ty, parser, buf, text, ops] => do
      let T ← Ty.ofName ty
      let r ← runParser checks parser buf text ops
      pure (convAnswer T checks r)
  | "x_parse_str_conv", [ty, parser, text] => do
      let T ← Ty.ofName ty; let text ← unhex text
      let r ← parseStrWith checks parser text
      pure (convAnswer T checks r)
  | "x_raw_fin", [ty, text, neg, sig, point, exp] => do
      let T ← Ty.ofName ty; let text ← unhex text; let neg ← bit neg; let sig ← range sig; let point ← optRange point
      let exp : Option PExponent ← (if exp == "_" then some none else
        match exp.splitOn "," with
        | [n, r] => do pure (some ⟨← bit n, ← range r⟩)
        | _ => none)
      pure ((fromParsedC T checks (.finite ⟨rawBuf text, ⟨neg, sig, point⟩, exp⟩)).map showBytesOrErr)
  | "x_raw_nan", [ty, text, neg, sig, payload] => do
      let T ← Ty.ofName ty; let text ← unhex text; let neg ← bit neg; let sig ← bit sig; let payload ← optRange payload
      pure ((fromParsedC T checks (.nan ⟨rawBuf text, sig, neg, payload.map fun r => ⟨false, r, none⟩⟩)).map showBytesOrErr)
  | "x_raw_inf", [ty, neg] => do
      let T ← Ty.ofName ty; let neg ← bit neg
      pure ((fromParsedC T checks (.infinity neg)).map showBytesOrErr)
  | "x_to_fmt", [ty, bytes] => do
      let T ← tyOfBuf ty; let bytes ← unhex bytes
      pure ((toTextC T checks (Buf.ofBytes bytes)).map hex)
  | "x_to_int", [ty, bytes, ity] => do
      let T ← tyOfBuf ty; let bytes ← unhex bytes; let I ← Spec.IntTy.ofName ity
      pure ((toIntC T checks (Buf.ofBytes bytes) I).map fun v => showOpt (v.map toString))
  | "x_to_float", [ty, bytes, fty] => do
      let T ← tyOfBuf ty; let bytes ← unhex bytes; let B ← Spec.BinFmt.ofName fty
      pure ((toFloatC T checks (Buf.ofBytes bytes) B).map fun v => showOpt (v.map fun bits => natHex bits (B.width / 4)))
  | "x_from_int", [ty, ity, v] => do
      let T ← Ty.ofName ty; let _ ← Spec.IntTy.ofName ity; let v ← parseInt v
      pure ((fromTextKeepC T checks (Spec.toDecimal v)).map showBytesOrErr)
  | "x_from_float", [ty, fty, bits, ryu] => do
      let T ← Ty.ofName ty; let B ← Spec.BinFmt.ofName fty; let bits ← hexNat bits; let ryu ← unhex ryu
      pure ((fromFloatKeepC T checks B bits ryu).map showBytesOrErr)
  | _, _ => none

/-- `ok:<canonical rendering>` | `panic` -/
def answerHook (name : String) (checks : Bool) (args : List String) : Option String :=
  (answerHookC name checks args).map fun
    | .ok s => s!"ok:{s}"
    | .error _ => "panic"

end Decstr.Model.Exec.Hooks
