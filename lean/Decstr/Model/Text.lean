import Decstr.Spec.Basic
/-!
# Model.Text — the text parsers of `src/text.rs`, `src/text/{finite,nan,infinity}.rs` and the three
text buffers of `src/text/buf/{str,array,vec}.rs`, function by function.

A parser consumes bytes one at a time; fragments delivered by `fmt::Write::write_str` are fed in
order (`parseAscii`).  The buffers record *ranges* into a stored text:

* `str`   — the whole input is known up front; only an index advances (`StrTextBuf`);
* `array` — bytes are copied into a fixed array of `cap` bytes; a `+` is **not** stored (`ArrayTextBuf`);
* `vec`   — like `array` without a capacity (`VecTextBuf`).
-/
namespace Decstr.Model
open Decstr.Spec (isDigit lower)

inductive ParseErr where
  | char (got : Nat)
  | endOfInput
  | bufferTooSmall
  | source
deriving Repr, DecidableEq, Inhabited

inductive BufKind where
  | str
  | array (cap : Nat)
  | vec
deriving Repr, DecidableEq, Inhabited

/-- A text buffer: for `str`, `text` is the whole borrowed input and `idx` the parser's position;
    for `array`/`vec`, `text` is what has been stored so far (`idx` unused, kept equal to its length). -/
structure TextBuf where
  kind : BufKind
  text : List Nat
  idx : Nat := 0
deriving Repr, DecidableEq, Inhabited

structure Range where
  start : Nat
  stop : Nat
deriving Repr, DecidableEq, Inhabited

structure PSignificand where
  neg : Bool := false
  range : Range := ⟨0, 0⟩
  point : Option Range := none
deriving Repr, DecidableEq, Inhabited

structure PExponent where
  neg : Bool := false
  range : Range := ⟨0, 0⟩
deriving Repr, DecidableEq, Inhabited

namespace TextBuf

def new (kind : BufKind) (input : List Nat) : TextBuf :=
  match kind with
  | .str => ⟨.str, input, 0⟩
  | k => ⟨k, [], 0⟩

/-- `TextBuf::get_ascii` -/
def ascii (b : TextBuf) : List Nat := b.text

/-- `remaining_capacity` -/
def remaining (b : TextBuf) : Option Nat :=
  match b.kind with
  | .array cap => some (cap - b.text.length)
  | _ => none

/-- current position: `self.index` / `self.len` / `self.buf.len()` -/
def pos (b : TextBuf) : Nat :=
  match b.kind with
  | .str => b.idx
  | _ => b.text.length

/-- store one byte (array/vec) or step over it (str) -/
def put (b : TextBuf) (c : Nat) : TextBuf :=
  match b.kind with
  | .str => { b with idx := b.idx + 1 }
  | _ => { b with text := b.text ++ [c], idx := b.idx + 1 }

def beginSignificand (b : TextBuf) : PSignificand := { neg := false, range := ⟨b.pos, b.pos⟩, point := none }

def advanceSignificand (b : TextBuf) (c : Nat) : TextBuf := b.put c

/-- `push_significand_digit`: str sets `end = index`; array/vec do `end += 1` -/
def pushSignificandDigit (b : TextBuf) (s : PSignificand) (d : Nat) : TextBuf × PSignificand :=
  let b' := b.put d
  match b.kind with
  | .str => (b', { s with range := ⟨s.range.start, b'.idx⟩ })
  | _ => (b', { s with range := ⟨s.range.start, s.range.stop + 1⟩ })

def pushDecimalPoint (b : TextBuf) (s : PSignificand) : TextBuf × PSignificand :=
  let p := b.pos
  let b' := b.put 46
  match b.kind with
  | .str => (b', { s with point := some ⟨p, p + 1⟩, range := ⟨s.range.start, b'.idx⟩ })
  | _ => (b', { s with point := some ⟨p, p + 1⟩, range := ⟨s.range.start, s.range.stop + 1⟩ })

def significandNegative (b : TextBuf) (s : PSignificand) : TextBuf × PSignificand :=
  (b.put 45, { s with neg := true, range := ⟨s.range.start + 1, s.range.stop + 1⟩ })

/-- str steps over the `+`; array and vec do not store it and leave the range alone -/
def significandPositive (b : TextBuf) (s : PSignificand) : TextBuf × PSignificand :=
  match b.kind with
  | .str => (b.put 43, { s with neg := false, range := ⟨s.range.start + 1, s.range.stop + 1⟩ })
  | _ => (b, { s with neg := false })

def beginExponent (b : TextBuf) : TextBuf × PExponent :=
  let b' := b.put 101
  (b', { neg := false, range := ⟨b'.pos, b'.pos⟩ })

def pushExponentDigit (b : TextBuf) (e : PExponent) (d : Nat) : TextBuf × PExponent :=
  let b' := b.put d
  match b.kind with
  | .str => (b', { e with range := ⟨e.range.start, b'.idx⟩ })
  | _ => (b', { e with range := ⟨e.range.start, e.range.stop + 1⟩ })

def exponentNegative (b : TextBuf) (e : PExponent) : TextBuf × PExponent :=
  (b.put 45, { e with neg := true, range := ⟨e.range.start + 1, e.range.stop + 1⟩ })

def exponentPositive (b : TextBuf) (e : PExponent) : TextBuf × PExponent :=
  match b.kind with
  | .str => (b.put 43, { e with neg := false, range := ⟨e.range.start + 1, e.range.stop + 1⟩ })
  | _ => (b, { e with neg := false })

end TextBuf

/-- `buf[range]` -/
def slice (l : List Nat) (r : Range) : List Nat := (l.drop r.start).take (r.stop - r.start)

/-! ## FiniteParser -/

structure FiniteParser where
  buf : TextBuf
  sig : PSignificand
  exp : Option PExponent := none
  hasSign : Bool := false
  hasDecimal : Bool := false
  hasDigits : Bool := false
deriving Repr, DecidableEq, Inhabited

namespace FiniteParser

def begin (b : TextBuf) : FiniteParser := { buf := b, sig := b.beginSignificand }

def pushSignificandDigit (p : FiniteParser) (d : Nat) : FiniteParser :=
  let (b, s) := p.buf.pushSignificandDigit p.sig d
  { p with buf := b, sig := s, hasDigits := true }

def significandNegative (p : FiniteParser) : FiniteParser :=
  let (b, s) := p.buf.significandNegative p.sig
  { p with buf := b, sig := s, hasSign := true }

def significandPositive (p : FiniteParser) : FiniteParser :=
  let (b, s) := p.buf.significandPositive p.sig
  { p with buf := b, sig := s, hasSign := true }

def pushDecimalPoint (p : FiniteParser) : FiniteParser :=
  let (b, s) := p.buf.pushDecimalPoint p.sig
  { p with buf := b, sig := s, hasDecimal := true, hasDigits := false }

def beginExponent (p : FiniteParser) : FiniteParser :=
  let (b, e) := p.buf.beginExponent
  { p with buf := b, exp := some e, hasSign := false, hasDigits := false }

/-- one byte of `parse_ascii` -/
def step (p : FiniteParser) (c : Nat) : Except ParseErr FiniteParser :=
  match p.exp with
  | none =>
    if isDigit c then .ok (p.pushSignificandDigit c)
    else if c = 45 && !p.hasSign && !p.hasDigits && !p.hasDecimal then .ok p.significandNegative
    else if c = 46 && !p.hasDecimal then .ok p.pushDecimalPoint
    else if (c = 101 || c = 69) && p.hasDigits then .ok p.beginExponent
    else if c = 43 && !p.hasSign && !p.hasDigits && !p.hasDecimal then .ok p.significandPositive
    else .error (.char c)
  | some e =>
    if isDigit c then
      let (b, e') := p.buf.pushExponentDigit e c
      .ok { p with buf := b, exp := some e', hasDigits := true }
    else if c = 45 && !p.hasSign && !p.hasDigits then
      let (b, e') := p.buf.exponentNegative e
      .ok { p with buf := b, exp := some e', hasSign := true }
    else if c = 43 && !p.hasSign && !p.hasDigits then
      let (b, e') := p.buf.exponentPositive e
      .ok { p with buf := b, exp := some e', hasSign := true }
    else .error (.char c)

def steps (p : FiniteParser) : List Nat → Except ParseErr FiniteParser
  | [] => .ok p
  | c :: cs => match p.step c with
    | .ok p' => p'.steps cs
    | .error e => .error e

/-- `parse_ascii`: the capacity test is made once per fragment, before any byte is consumed -/
def parseAscii (p : FiniteParser) (frag : List Nat) : Except ParseErr FiniteParser :=
  match p.buf.remaining with
  | some r => if r < frag.length then .error .bufferTooSmall else p.steps frag
  | none => p.steps frag

structure ParsedFinite where
  buf : TextBuf
  sig : PSignificand
  exp : Option PExponent
deriving Repr, DecidableEq, Inhabited

def finish (p : FiniteParser) : Except ParseErr ParsedFinite :=
  if !p.hasDigits then .error .endOfInput else .ok ⟨p.buf, p.sig, p.exp⟩

end FiniteParser

/-! ## InfinityParser -/

def kwInfinity : List Nat := [105, 110, 102, 105, 110, 105, 116, 121]      -- "infinity"
def kwSnan : List Nat := [115, 110, 97, 110, 40, 41]                       -- "snan()"

/-- `expecting[0].eq_ignore_ascii_case(c)`: ASCII letters compare case-insensitively -/
def eqIgnoreCase (a c : Nat) : Bool := lower a == lower c

structure InfinityParser where
  buf : TextBuf
  expecting : List Nat := kwInfinity
  neg : Bool := false
deriving Repr, DecidableEq, Inhabited

namespace InfinityParser

def atStart (p : InfinityParser) : Bool := p.expecting.length == kwInfinity.length

def advance (p : InfinityParser) (c : Nat) : InfinityParser :=
  { p with expecting := p.expecting.drop 1, buf := p.buf.advanceSignificand c }

def step (p : InfinityParser) (c : Nat) : Except ParseErr InfinityParser :=
  if c = 45 && p.atStart then .ok { p with neg := true, buf := p.buf.advanceSignificand c }
  else if c = 43 && p.atStart then .ok { p with neg := false, buf := p.buf.advanceSignificand c }
  else match p.expecting with
    | e :: _ => if eqIgnoreCase e c then .ok (p.advance c) else .error (.char c)
    | [] => .error (.char c)

def steps (p : InfinityParser) : List Nat → Except ParseErr InfinityParser
  | [] => .ok p
  | c :: cs => match p.step c with
    | .ok p' => p'.steps cs
    | .error e => .error e

def parseAscii (p : InfinityParser) (frag : List Nat) : Except ParseErr InfinityParser :=
  match p.buf.remaining with
  | some r => if r < frag.length then .error .bufferTooSmall else p.steps frag
  | none => p.steps frag

/-- `b"" | b"inity"` are complete -/
def finish (p : InfinityParser) : Except ParseErr Bool :=
  if p.expecting = [] || p.expecting = kwInfinity.drop 3 then .ok p.neg else .error .endOfInput

end InfinityParser

/-! ## NanParser -/

structure NanParser where
  buf : TextBuf
  expecting : List Nat := kwSnan
  signaling : Bool := false
  neg : Bool := false
  payload : Option PSignificand := none
deriving Repr, DecidableEq, Inhabited

namespace NanParser

def atStart (p : NanParser) : Bool := p.expecting.length == kwSnan.length

def isExpecting (p : NanParser) (c : Nat) : Bool :=
  match p.expecting with
  | e :: _ => eqIgnoreCase e c
  | [] => false

def nanPositive (p : NanParser) (c : Nat) : NanParser := { p with neg := false, buf := p.buf.advanceSignificand c }
def nanNegative (p : NanParser) (c : Nat) : NanParser := { p with neg := true, buf := p.buf.advanceSignificand c }
def nanQuiet (p : NanParser) (c : Nat) : NanParser :=
  { p with signaling := false, expecting := p.expecting.drop 2, buf := p.buf.advanceSignificand c }
def nanSignaling (p : NanParser) (c : Nat) : NanParser :=
  { p with signaling := true, expecting := p.expecting.drop 1, buf := p.buf.advanceSignificand c }

def step (p : NanParser) (c : Nat) : Except ParseErr NanParser :=
  if isDigit c && p.payload.isSome && p.isExpecting 41 then
    match p.payload with
    | some s => let (b, s') := p.buf.pushSignificandDigit s c
                .ok { p with buf := b, payload := some s' }
    | none => .ok p
  else if c = 45 && p.atStart then .ok (p.nanNegative c)
  else if c = 43 && p.atStart then .ok (p.nanPositive c)
  else if (c = 110 || c = 78) && p.atStart then .ok (p.nanQuiet c)
  else if (c = 115 || c = 83) && p.atStart then .ok (p.nanSignaling c)
  else if c = 40 && p.isExpecting 40 then
    let b := p.buf.advanceSignificand c
    .ok { p with expecting := p.expecting.drop 1, buf := b, payload := some b.beginSignificand }
  else if c = 41 && p.isExpecting 41 then
    .ok { p with expecting := p.expecting.drop 1, buf := p.buf.advanceSignificand c }
  else if p.isExpecting c then
    .ok { p with expecting := p.expecting.drop 1, buf := p.buf.advanceSignificand c }
  else .error (.char c)

def steps (p : NanParser) : List Nat → Except ParseErr NanParser
  | [] => .ok p
  | c :: cs => match p.step c with
    | .ok p' => p'.steps cs
    | .error e => .error e

def parseAscii (p : NanParser) (frag : List Nat) : Except ParseErr NanParser :=
  match p.buf.remaining with
  | some r => if r < frag.length then .error .bufferTooSmall else p.steps frag
  | none => p.steps frag

structure ParsedNan where
  buf : TextBuf
  signaling : Bool
  neg : Bool
  payload : Option PSignificand
deriving Repr, DecidableEq, Inhabited

/-- complete when everything was consumed with a payload, or when `()` is all that is left without one -/
def finish (p : NanParser) : Except ParseErr ParsedNan :=
  match p.expecting, p.payload with
  | [], some s => if !s.neg && s.point.isNone then .ok ⟨p.buf, p.signaling, p.neg, some s⟩ else .error .endOfInput
  | [40, 41], none => .ok ⟨p.buf, p.signaling, p.neg, none⟩
  | _, _ => .error .endOfInput

end NanParser

/-! ## DecimalParser -/

inductive Parsed where
  | finite (f : FiniteParser.ParsedFinite)
  | infinity (neg : Bool)
  | nan (n : NanParser.ParsedNan)
deriving Repr, DecidableEq, Inhabited

inductive DecimalParser where
  | atStart (buf : TextBuf) (neg : Option Bool)
  | finite (p : FiniteParser)
  | infinity (p : InfinityParser)
  | nan (p : NanParser)
  /-- an error has been recorded (`context`); every later write is refused -/
  | failed (e : ParseErr)
deriving Repr, DecidableEq, Inhabited

namespace DecimalParser

def begin (b : TextBuf) : DecimalParser := .atStart b none

/-- the `AtStart` arm of `parse_ascii`, one byte -/
def startStep (b : TextBuf) (neg : Option Bool) (c : Nat) : Except ParseErr DecimalParser :=
  if isDigit c then
    let f := FiniteParser.begin b
    let f := match neg with
      | some false => f.significandPositive
      | some true => f.significandNegative
      | none => f
    .ok (.finite (f.pushSignificandDigit c))
  else if c = 45 && neg.isNone then .ok (.atStart b (some true))
  else if c = 43 && neg.isNone then .ok (.atStart b (some false))
  else if c = 115 || c = 83 then
    let n : NanParser := { buf := b }
    let n := match neg with
      | some false => n.nanPositive 43
      | some true => n.nanNegative 45
      | none => n
    .ok (.nan (n.nanSignaling c))
  else if c = 110 || c = 78 then
    let n : NanParser := { buf := b }
    let n := match neg with
      | some false => n.nanPositive 43
      | some true => n.nanNegative 45
      | none => n
    .ok (.nan (n.nanQuiet c))
  else if c = 105 || c = 73 then
    let i : InfinityParser := { buf := b }
    let i := match neg with
      | some n => { i with neg := n }
      | none => i
    .ok (.infinity (i.advance c))
  else .error (.char c)

/-- `parse_ascii` on one fragment: bytes are handled here until a sub-parser exists, then the rest of the
    fragment is forwarded to it (with that parser's per-fragment capacity test). -/
def parseAscii : DecimalParser → List Nat → Except ParseErr DecimalParser
  | .failed e, _ => .error e
  | p, [] => .ok p
  | .finite f, cs => (f.parseAscii cs).map .finite
  | .infinity i, cs => (i.parseAscii cs).map .infinity
  | .nan n, cs => (n.parseAscii cs).map .nan
  | .atStart b neg, c :: cs =>
    match startStep b neg c with
    | .ok p' => parseAscii p' cs
    | .error e => .error e
termination_by _ cs => cs.length
decreasing_by all_goals simp_wf

def finish : DecimalParser → Except ParseErr Parsed
  | .finite f => f.finish.map .finite
  | .infinity i => i.finish.map .infinity
  | .nan n => n.finish.map .nan
  | .atStart _ _ => .error .endOfInput
  | .failed e => .error e

end DecimalParser

/-- What a `Display` source does: the fragments it writes, and whether it reports failure before
    fragment `k` / ignores the errors it is handed. -/
inductive Fault where
  | none
  | failAt (k : Nat)
  | swallow
deriving Repr, DecidableEq, Inhabited

/-- `write!(parser, "{}", f)` for a `Display` that writes `frags`: each `write_str` either succeeds or
    records the error (`context`) and returns `fmt::Error`, which an honest `Display` propagates at once.
    Result: the parser and whether `fmt` returned `Err`. -/
def feed (p : DecimalParser) (frags : List (List Nat)) (fault : Fault) : Nat → DecimalParser × Bool
  | i =>
    match frags with
    | [] => (p, fault == .failAt i)
    | f :: rest =>
      if fault == .failAt i then (p, true)
      else
        match p with
        | .failed e => if fault == .swallow then feed (.failed e) rest fault (i + 1) else (.failed e, true)
        | _ =>
          match p.parseAscii f with
          | .ok p' => feed p' rest fault (i + 1)
          | .error e => if fault == .swallow then feed (.failed e) rest fault (i + 1) else (.failed e, true)

/-- `DecimalParser::parse_str` -/
def parseStr (input : List Nat) : Except ParseErr Parsed :=
  match (DecimalParser.begin (TextBuf.new .str input)).parseAscii input with
  | .ok p => p.finish
  | .error e => .error e

/-- `decimal_from_fmt` up to `parser.end()`: `parse_fmt` maps a `fmt::Error` to the recorded error or `source`. -/
def parseFmt (kind : BufKind) (frags : List (List Nat)) (fault : Fault) : Except ParseErr Parsed :=
  match feed (DecimalParser.begin (TextBuf.new kind [])) frags fault 0 with
  | (.failed e, true) => .error e
  | (_, true) => .error .source
  | (p, false) => p.finish

end Decstr.Model
