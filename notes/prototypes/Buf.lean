namespace P

def orByte (N i v : Nat) : Nat := N ||| ((v % 256) <<< (8*i))
def getByte (N i : Nat) : Nat := (N >>> (8*i)) % 256

theorem add_eq_or_of_lt (a b : Nat) (ha : a < 256) : a + 256*b = a ||| (b <<< 8) := by
  have h : a + 256 * b = 2^8 * b + a := by omega
  rw [h, Nat.two_pow_add_eq_or_of_lt (by simpa using ha)]
  rw [Nat.or_comm, Nat.shiftLeft_eq, Nat.mul_comm]

theorem two_bytes (a b i : Nat) (ha : a < 256) :
    (a <<< (8*i)) ||| (b <<< (8*(i+1))) = (a + 256*b) <<< (8*i) := by
  rw [add_eq_or_of_lt a b ha, Nat.shiftLeft_or_distrib, ← Nat.shiftLeft_add]
  congr 2; omega

theorem splice (x s : Nat) (hx : x < 1024) (hs : s = 0 ∨ s = 2 ∨ s = 4 ∨ s = 6) :
    ((x <<< s) % 256) + 256 * ((x >>> (8 - s)) % 256) = x <<< s := by
  rcases hs with rfl | rfl | rfl | rfl <;> simp [Nat.shiftLeft_eq, Nat.shiftRight_eq_div_pow] <;> omega

theorem write_dpd (N x bit : Nat) (hx : x < 1024) (hs : bit % 8 = 0 ∨ bit % 8 = 2 ∨ bit % 8 = 4 ∨ bit % 8 = 6) :
    orByte (orByte N (bit / 8) (x <<< (bit % 8))) (bit / 8 + 1) (x >>> (8 - bit % 8))
      = N ||| (x <<< bit) := by
  unfold orByte
  rw [Nat.or_assoc, two_bytes _ _ _ (Nat.mod_lt _ (by decide)), splice x _ hx hs, ← Nat.shiftLeft_add]
  congr 2; omega

end P
#print axioms P.write_dpd
