import Lp2.Spec
/-!
Prototype for C06: a faithful step-function model of the finite part of `DecimalParser`
(after the D4 repair), with semantic accumulators, and the proof that running it over a
whole text equals the reference recogniser `Spec.parseFiniteBody`.
-/
namespace Decstr.Model
open Decstr.Spec

/-- FiniteParser state, as in `text/finite.rs`: three flags, the exponent `Option`, plus what the
    recorded ranges denote (the digits seen so far). -/
structure Fin where
  neg : Bool := false
  int : List Nat := []
  frac : List Nat := []
  exp : Option (Bool × List Nat) := none     -- `self.exponent`
  hasSign : Bool := false
  hasDecimal : Bool := false
  hasDigits : Bool := false
deriving Repr, DecidableEq

/-- one byte through `FiniteParser::parse_ascii` (`none` = `Err(unexpected_char)`). -/
def Fin.step (s : Fin) (c : Nat) : Option Fin :=
  match s.exp with
  | none =>
    if isDigit c then
      some (if s.hasDecimal then { s with frac := s.frac ++ [c - 48], hasDigits := true }
            else { s with int := s.int ++ [c - 48], hasDigits := true })
    else if c = 45 && !s.hasSign && !s.hasDigits && !s.hasDecimal then some { s with neg := true, hasSign := true }
    else if c = 46 && !s.hasDecimal then some { s with hasDecimal := true, hasDigits := false }
    else if (c = 101 || c = 69) && s.hasDigits then some { s with exp := some (false, []), hasSign := false, hasDigits := false }
    else if c = 43 && !s.hasSign && !s.hasDigits && !s.hasDecimal then some { s with neg := false, hasSign := true }
    else none
  | some (en, ed) =>
    if isDigit c then some { s with exp := some (en, ed ++ [c - 48]), hasDigits := true }
    else if c = 45 && !s.hasSign && !s.hasDigits then some { s with exp := some (true, ed), hasSign := true }
    else if c = 43 && !s.hasSign && !s.hasDigits then some { s with exp := some (false, ed), hasSign := true }
    else none

def Fin.run (s : Fin) : List Nat → Option Fin
  | [] => some s
  | c :: cs => (s.step c).bind (·.run cs)

/-- `FiniteParser::end` -/
def Fin.finish (s : Fin) : Option Numeral :=
  if s.hasDigits then some (.finite s.neg s.int s.frac s.exp) else none

/-- `DecimalParser` restricted to texts whose first byte after the optional sign is a digit:
    the sign is stashed, the first digit creates the FiniteParser. -/
def parseFinite (neg : Bool) (hasSign : Bool) (cs : List Nat) : Option Numeral :=
  match cs with
  | c :: rest =>
    if isDigit c then
      (({ neg := neg, hasSign := hasSign, int := [c - 48], hasDigits := true } : Fin).run rest).bind Fin.finish
    else none
  | [] => none

/-! ### run over a run of digits -/

theorem takeDigits_cons_digit (c : Nat) (cs : List Nat) (h : isDigit c = true) :
    takeDigits (c :: cs) = ((c - 48) :: (takeDigits cs).1, (takeDigits cs).2) := by
  simp [takeDigits, h]

theorem takeDigits_cons_nondigit (c : Nat) (cs : List Nat) (h : isDigit c = false) :
    takeDigits (c :: cs) = ([], c :: cs) := by
  simp [takeDigits, h]

theorem takeDigits_nil : takeDigits [] = ([], []) := rfl

/-- the remainder after `takeDigits` does not start with a digit -/
theorem takeDigits_rest (cs : List Nat) :
    (takeDigits cs).2 = [] ∨ ∃ c r, (takeDigits cs).2 = c :: r ∧ isDigit c = false := by
  induction cs with
  | nil => left; rfl
  | cons c cs ih =>
    cases h : isDigit c
    · right; exact ⟨c, cs, by simp [takeDigits_cons_nondigit _ _ h], h⟩
    · simpa [takeDigits_cons_digit _ _ h] using ih

/-- integer digits phase -/
theorem run_int (s : Fin) (cs : List Nat) (he : s.exp = none) (hd : s.hasDecimal = false) :
    s.run cs = ({ s with int := s.int ++ (takeDigits cs).1,
                         hasDigits := s.hasDigits || !(takeDigits cs).1.isEmpty } : Fin).run (takeDigits cs).2 := by
  induction cs generalizing s with
  | nil => simp [takeDigits_nil]
  | cons c cs ih =>
    cases h : isDigit c
    · simp [takeDigits_cons_nondigit _ _ h]
    · rw [takeDigits_cons_digit _ _ h]
      simp only [Fin.run, Fin.step, he, h, hd]
      simp only [if_true, Option.bind, Bool.false_eq_true, if_false]
      rw [ih _ (by simp [he]) (by simp [hd])]
      simp [List.append_assoc]

theorem run_frac (s : Fin) (cs : List Nat) (he : s.exp = none) (hd : s.hasDecimal = true) :
    s.run cs = ({ s with frac := s.frac ++ (takeDigits cs).1,
                         hasDigits := s.hasDigits || !(takeDigits cs).1.isEmpty } : Fin).run (takeDigits cs).2 := by
  induction cs generalizing s with
  | nil => simp [takeDigits_nil]
  | cons c cs ih =>
    cases h : isDigit c
    · simp [takeDigits_cons_nondigit _ _ h]
    · rw [takeDigits_cons_digit _ _ h]
      simp only [Fin.run, Fin.step, he, h, hd]
      simp only [if_true, Option.bind]
      rw [ih _ (by simp [he]) (by simp [hd])]
      simp [List.append_assoc]

theorem run_exp (s : Fin) (en : Bool) (ed : List Nat) (cs : List Nat) (he : s.exp = some (en, ed)) :
    s.run cs = ({ s with exp := some (en, ed ++ (takeDigits cs).1),
                         hasDigits := s.hasDigits || !(takeDigits cs).1.isEmpty } : Fin).run (takeDigits cs).2 := by
  induction cs generalizing s ed with
  | nil =>
    obtain ⟨neg, int, frac, exp, hs, hdec, hdig⟩ := s
    simp only at he; subst he
    simp [takeDigits_nil]
  | cons c cs ih =>
    obtain ⟨neg, int, frac, exp, hs, hdec, hdig⟩ := s
    simp only at he; subst he
    cases h : isDigit c
    · simp [takeDigits_cons_nondigit _ _ h]
    · rw [takeDigits_cons_digit _ _ h]
      simp only [Fin.run, Fin.step, h]
      simp only [if_true, Option.bind]
      rw [ih _ (ed ++ [c - 48]) rfl]
      simp [List.append_assoc]

/-! ### the whole finite numeral -/

theorem lower_eq_e (c : Nat) : lower c = 101 ↔ (c = 101 ∨ c = 69) := by
  unfold lower; split <;> simp_all <;> omega

theorem takeDigits_fst_nil (cs : List Nat) (h : (takeDigits cs).1 = []) : (takeDigits cs).2 = cs := by
  cases cs with
  | nil => rfl
  | cons c cs =>
    cases hc : isDigit c
    · simp [takeDigits_cons_nondigit _ _ hc]
    · simp [takeDigits_cons_digit _ _ hc] at h

/-- the spec's exponent tail, written with projections -/
def expTail (neg : Bool) (int frac : List Nat) (r3 : List Nat) : Option Numeral :=
  if (takeDigits (takeSign r3).2).1.isEmpty || !(takeDigits (takeSign r3).2).2.isEmpty then none
  else some (.finite neg int frac (some ((takeSign r3).1.getD false, (takeDigits (takeSign r3).2).1)))

/-- a non-digit in the exponent is rejected unless it is a sign in first position -/
theorem step_exp_reject (neg : Bool) (int frac : List Nat) (en : Bool) (eds : List Nat) (sg hdec dg : Bool) (c : Nat)
    (hnd : isDigit c = false) (h : dg = true ∨ sg = true ∨ (c ≠ 43 ∧ c ≠ 45)) :
    ({ neg := neg, int := int, frac := frac, exp := some (en, eds), hasSign := sg, hasDecimal := hdec, hasDigits := dg } : Fin).step c = none := by
  simp only [Fin.step, hnd]
  rcases h with rfl | rfl | ⟨h1, h2⟩ <;> simp_all

theorem digits_then_end (neg : Bool) (int frac : List Nat) (hdec en sg : Bool) (r4 : List Nat)
    (h : sg = true ∨ ∀ c r, r4 = c :: r → c ≠ 43 ∧ c ≠ 45) :
    ((({ neg := neg, int := int, frac := frac, exp := some (en, []), hasSign := sg, hasDecimal := hdec, hasDigits := false } : Fin).run r4).bind Fin.finish)
      = (if (takeDigits r4).1.isEmpty || !(takeDigits r4).2.isEmpty then none
         else some (.finite neg int frac (some (en, (takeDigits r4).1)))) := by
  rw [run_exp _ en [] r4 rfl]
  have hrest := takeDigits_rest r4
  have hnil := takeDigits_fst_nil r4
  generalize (takeDigits r4).1 = ds at *
  generalize (takeDigits r4).2 = rr at *
  rcases hrest with rfl | ⟨c, r, rfl, hnd⟩
  · cases ds <;> simp [Fin.run, Fin.finish]
  · cases ds with
    | nil =>
      have hr4 : c :: r = r4 := hnil rfl
      have hc : sg = true ∨ (c ≠ 43 ∧ c ≠ 45) := by
        rcases h with h | h
        · exact Or.inl h
        · exact Or.inr (h c r hr4.symm)
      simp only [List.nil_append, List.isEmpty_nil, Bool.not_true, Bool.or_false, Fin.run]
      rw [step_exp_reject _ _ _ _ _ _ _ _ _ hnd (Or.inr hc)]
      simp
    | cons d ds =>
      simp only [List.nil_append, List.isEmpty_cons, Bool.not_false, Bool.or_true, Fin.run]
      rw [step_exp_reject _ _ _ _ _ _ _ _ _ hnd (Or.inl rfl)]
      simp

/-- after the exponent marker: optional sign, digits, end of input -/
theorem exp_tail (neg : Bool) (int frac : List Nat) (hdec : Bool) (r3 : List Nat) :
    ((({ neg := neg, int := int, frac := frac, exp := some (false, []), hasSign := false, hasDecimal := hdec, hasDigits := false } : Fin).run r3).bind Fin.finish)
      = expTail neg int frac r3 := by
  unfold expTail
  cases r3 with
  | nil => simp [takeSign, takeDigits_nil, Fin.run, Fin.finish]
  | cons c r =>
    by_cases h43 : c = 43
    · subst h43
      have : takeSign (43 :: r) = (some false, r) := rfl
      rw [this]
      have hs : ({ neg := neg, int := int, frac := frac, exp := some (false, []), hasSign := false, hasDecimal := hdec, hasDigits := false } : Fin).step 43
          = some { neg := neg, int := int, frac := frac, exp := some (false, []), hasSign := true, hasDecimal := hdec, hasDigits := false } := by
        simp [Fin.step, show isDigit 43 = false by decide]
      rw [Fin.run, hs, Option.bind_some]
      simpa using digits_then_end neg int frac hdec false true r (Or.inl rfl)
    · by_cases h45 : c = 45
      · subst h45
        have : takeSign (45 :: r) = (some true, r) := rfl
        rw [this]
        have hs : ({ neg := neg, int := int, frac := frac, exp := some (false, []), hasSign := false, hasDecimal := hdec, hasDigits := false } : Fin).step 45
            = some { neg := neg, int := int, frac := frac, exp := some (true, []), hasSign := true, hasDecimal := hdec, hasDigits := false } := by
          simp [Fin.step, show isDigit 45 = false by decide]
        rw [Fin.run, hs, Option.bind_some]
        simpa using digits_then_end neg int frac hdec true true r (Or.inl rfl)
      · have : takeSign (c :: r) = (none, c :: r) := by
          unfold takeSign; split <;> simp_all
        rw [this]
        simpa using digits_then_end neg int frac hdec false false (c :: r)
          (Or.inr (by intro c' r' h; cases h; exact ⟨h43, h45⟩))

/-- what may follow the mantissa: end of input, or an exponent -/
def afterMant (neg : Bool) (i fr : List Nat) (r2 : List Nat) : Option Numeral :=
  match r2 with
  | [] => some (.finite neg i fr none)
  | c :: r3 => if lower c = 101 then expTail neg i fr r3 else none

/-- the reference recogniser for a finite body, in projection style -/
def finiteBody (neg : Bool) (cs : List Nat) : Option Numeral :=
  if (takeDigits cs).1.isEmpty then none else
  match (takeDigits cs).2 with
  | 46 :: r => if (takeDigits r).1.isEmpty then none else afterMant neg (takeDigits cs).1 (takeDigits r).1 (takeDigits r).2
  | r1 => afterMant neg (takeDigits cs).1 [] r1

theorem mant_tail (neg : Bool) (int frac : List Nat) (sg hdec : Bool) (r2 : List Nat)
    (hhead : r2 = [] ∨ ∃ c r, r2 = c :: r ∧ isDigit c = false ∧ (hdec = true ∨ c ≠ 46)) :
    ((({ neg := neg, int := int, frac := frac, exp := none, hasSign := sg, hasDecimal := hdec, hasDigits := true } : Fin).run r2).bind Fin.finish)
      = afterMant neg int frac r2 := by
  rcases hhead with rfl | ⟨c, r, rfl, hnd, hdot⟩
  · simp [Fin.run, Fin.finish, afterMant]
  · unfold afterMant
    by_cases he : lower c = 101
    · have he' := (lower_eq_e c).1 he
      have hs : ({ neg := neg, int := int, frac := frac, exp := none, hasSign := sg, hasDecimal := hdec, hasDigits := true } : Fin).step c
          = some { neg := neg, int := int, frac := frac, exp := some (false, []), hasSign := false, hasDecimal := hdec, hasDigits := false } := by
        simp only [Fin.step, hnd]
        rcases he' with rfl | rfl <;> simp
      rw [Fin.run, hs, Option.bind_some, exp_tail]
      simp [he]
    · have he' : ¬ (c = 101 ∨ c = 69) := fun h => he ((lower_eq_e c).2 h)
      have hs : ({ neg := neg, int := int, frac := frac, exp := none, hasSign := sg, hasDecimal := hdec, hasDigits := true } : Fin).step c = none := by
        simp only [Fin.step, hnd]
        rcases hdot with rfl | hdot <;> simp_all
      rw [Fin.run, hs]
      simp [he]

/-- The model's finite path (sign stashed by `DecimalParser`, first digit creates the FiniteParser)
    computes exactly the reference recogniser. -/
theorem parseFinite_eq_spec (neg hasSign : Bool) (cs : List Nat) :
    parseFinite neg hasSign cs = finiteBody neg cs := by
  cases cs with
  | nil => simp [parseFinite, finiteBody, takeDigits_nil]
  | cons c rest =>
    cases hc : isDigit c
    · simp [parseFinite, finiteBody, hc, takeDigits_cons_nondigit _ _ hc]
    · simp only [parseFinite, hc, if_true, finiteBody, takeDigits_cons_digit _ _ hc]
      rw [run_int _ rest rfl rfl]
      have hrest := takeDigits_rest rest
      generalize (takeDigits rest).1 = ids at *
      generalize (takeDigits rest).2 = r1 at *
      simp only [List.isEmpty_cons, Bool.false_eq_true, if_false, List.cons_append, List.nil_append, Bool.true_or]
      rcases hrest with rfl | ⟨c1, r2, rfl, hnd⟩
      · simpa [afterMant] using mant_tail neg ((c - 48) :: ids) [] hasSign false [] (Or.inl rfl)
      · by_cases hdot : c1 = 46
        · subst hdot
          -- the decimal point, then fractional digits
          have hs : ({ neg := neg, int := (c - 48) :: ids, frac := [], exp := none, hasSign := hasSign, hasDecimal := false, hasDigits := true } : Fin).step 46
              = some { neg := neg, int := (c - 48) :: ids, frac := [], exp := none, hasSign := hasSign, hasDecimal := true, hasDigits := false } := by
            simp [Fin.step, show isDigit 46 = false by decide]
          rw [Fin.run, hs, Option.bind_some, run_frac _ r2 rfl rfl]
          show _ = (if (takeDigits r2).1.isEmpty then none
                    else afterMant neg ((c - 48) :: ids) (takeDigits r2).1 (takeDigits r2).2)
          have hrest2 := takeDigits_rest r2
          generalize (takeDigits r2).1 = fds at *
          generalize (takeDigits r2).2 = r3 at *
          cases fds with
          | nil =>
            -- no fractional digit: rejected, whatever follows
            simp only [List.nil_append, List.isEmpty_nil, Bool.not_true, Bool.or_false, if_true]
            rcases hrest2 with rfl | ⟨c3, r4, rfl, hnd3⟩
            · simp [Fin.run, Fin.finish]
            · have : ({ neg := neg, int := (c - 48) :: ids, frac := [], exp := none, hasSign := hasSign, hasDecimal := true, hasDigits := false } : Fin).step c3 = none := by
                simp [Fin.step, hnd3]
              simp [Fin.run, this]
          | cons fd fds =>
            simp only [List.nil_append, List.isEmpty_cons, Bool.not_false, Bool.or_true, Bool.false_eq_true, if_false]
            refine mant_tail neg ((c - 48) :: ids) (fd :: fds) hasSign true r3 ?_
            rcases hrest2 with rfl | ⟨c3, r4, rfl, hnd3⟩
            · exact Or.inl rfl
            · exact Or.inr ⟨c3, r4, rfl, hnd3, Or.inl rfl⟩
        · have := mant_tail neg ((c - 48) :: ids) [] hasSign false (c1 :: r2) (Or.inr ⟨c1, r2, rfl, hnd, Or.inr hdot⟩)
          rw [this]
          split
          · rename_i r h; cases h; exact absurd rfl hdot
          · rfl

end Decstr.Model
#print axioms Decstr.Model.parseFinite_eq_spec
