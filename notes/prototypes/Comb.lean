import Leanprobe.Buf
/-!
Prototype: the exponent-continuation loop of `encode_combination_finite`, unaligned case,
as a faithful loop over a buffer-as-Nat, and its closed form for any number of iterations.
-/
namespace P

def ebyte (E i : Nat) : Nat := (E >>> (8*i)) % 256

/-- `while di < max { buf[di] |= e[ei] << s; buf[di+1] |= e[ei] >> (8-s); di++; ei++ }` -/
def expLoop (E s : Nat) : Nat → Nat → Nat → Nat → Nat
  | 0, _, _, N => N
  | c+1, di, ei, N =>
      let x := ebyte E ei
      expLoop E s c (di+1) (ei+1) (orByte (orByte N di (x <<< s)) (di+1) (x >>> (8 - s)))

theorem byte_split (x s : Nat) (hx : x < 256) (hs : s = 2 ∨ s = 4 ∨ s = 6) :
    ((x <<< s) % 256) + 256 * ((x >>> (8 - s)) % 256) = x <<< s := by
  rcases hs with rfl | rfl | rfl <;> simp [Nat.shiftLeft_eq, Nat.shiftRight_eq_div_pow] <;> omega

theorem step (N x di s : Nat) (hx : x < 256) (hs : s = 2 ∨ s = 4 ∨ s = 6) :
    orByte (orByte N di (x <<< s)) (di+1) (x >>> (8 - s)) = N ||| (x <<< (8*di + s)) := by
  unfold orByte
  rw [Nat.or_assoc, two_bytes _ _ _ (Nat.mod_lt _ (by decide)), byte_split x s hx hs, ← Nat.shiftLeft_add]
  congr 2; omega

/-- low `8c` bits of `E >>> 8ei`, i.e. bytes `ei .. ei+c` of `E` -/
def chunk (E ei c : Nat) : Nat := (E >>> (8*ei)) % 2 ^ (8*c)

theorem chunk_succ (E ei c : Nat) :
    chunk E ei (c+1) = ebyte E ei + 256 * chunk E (ei+1) c := by
  unfold chunk ebyte
  have h1 : E >>> (8 * (ei + 1)) = (E >>> (8*ei)) / 256 := by
    rw [Nat.mul_add, Nat.shiftRight_add]; simp [Nat.shiftRight_eq_div_pow]
  rw [h1]
  generalize E >>> (8*ei) = M
  have : (2:Nat) ^ (8 * (c+1)) = 256 * 2 ^ (8*c) := by
    rw [Nat.mul_add, Nat.pow_add]; simp [Nat.mul_comm]
  rw [this, Nat.mod_mul]

theorem expLoop_closed (E s : Nat) (hs : s = 2 ∨ s = 4 ∨ s = 6) :
    ∀ c di ei N, expLoop E s c di ei N = N ||| (chunk E ei c <<< (8*di + s)) := by
  intro c
  induction c with
  | zero => intro di ei N; simp [expLoop, chunk, Nat.mod_one]
  | succ c ih =>
    intro di ei N
    have hx : ebyte E ei < 256 := Nat.mod_lt _ (by decide)
    simp only [expLoop]
    rw [step N _ di s hx hs, ih, Nat.or_assoc, chunk_succ]
    congr 1
    have : 8 * (di + 1) + s = 8 + (8*di + s) := by omega
    rw [this, Nat.shiftLeft_add _ 8, ← Nat.shiftLeft_or_distrib]
    congr 1
    rw [add_eq_or_of_lt _ _ hx]

end P
#print axioms P.expLoop_closed
