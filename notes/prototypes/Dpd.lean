-- Model of encode_bcd_declet_to_dpd on Nat bit ops (subset) + spec table + decide proof
namespace P

def D2 : Nat := 0b1000
def DG : Nat := 0b0100
def DH : Nat := 0b0010
def DI : Nat := 0b0001
def D1 : Nat := 0b1000_0000
def DD : Nat := 0b0100_0000
def DE : Nat := 0b0010_0000
def DF : Nat := 0b0001_0000
def D0 : Nat := 0b1000_0000_0000
def DA : Nat := 0b0100_0000_0000
def DB : Nat := 0b0010_0000_0000
def DC : Nat := 0b0001_0000_0000
def B0 : Nat := 1

def encDpd (bcd : Nat) : Option Nat :=
  let sel := bcd &&& (D2 ||| D1 ||| D0)
  if sel = 0 then
    some (((bcd &&& DA) >>> 1) ||| ((bcd &&& DB) >>> 1) ||| ((bcd &&& DC) >>> 1) ||| (bcd &&& DD) ||| (bcd &&& DE) ||| (bcd &&& DF) ||| 0 ||| (bcd &&& DG) ||| (bcd &&& DH) ||| (bcd &&& DI))
  else if sel = D2 then
    some (((bcd &&& DA) >>> 1) ||| ((bcd &&& DB) >>> 1) ||| ((bcd &&& DC) >>> 1) ||| (bcd &&& DD) ||| (bcd &&& DE) ||| (bcd &&& DF) ||| (B0 <<< 3) ||| 0 ||| 0 ||| (bcd &&& DI))
  else if sel = D1 then
    some (((bcd &&& DA) >>> 1) ||| ((bcd &&& DB) >>> 1) ||| ((bcd &&& DC) >>> 1) ||| ((bcd &&& DG) <<< 4) ||| ((bcd &&& DH) <<< 4) ||| (bcd &&& DF) ||| (B0 <<< 3) ||| 0 ||| (B0 <<< 1) ||| (bcd &&& DI))
  else if sel = D0 then
    some (((bcd &&& DG) <<< 7) ||| ((bcd &&& DH) <<< 7) ||| ((bcd &&& DC) >>> 1) ||| (bcd &&& DD) ||| (bcd &&& DE) ||| (bcd &&& DF) ||| (B0 <<< 3) ||| (B0 <<< 2) ||| 0 ||| (bcd &&& DI))
  else if sel = (D0 ||| D1) then
    some (((bcd &&& DG) <<< 7) ||| ((bcd &&& DH) <<< 7) ||| ((bcd &&& DC) >>> 1) ||| 0 ||| 0 ||| (bcd &&& DF) ||| (B0 <<< 3) ||| (B0 <<< 2) ||| (B0 <<< 1) ||| (bcd &&& DI))
  else if sel = (D1 ||| D2) then
    some (((bcd &&& DA) >>> 1) ||| ((bcd &&& DB) >>> 1) ||| ((bcd &&& DC) >>> 1) ||| (B0 <<< 6) ||| 0 ||| (bcd &&& DF) ||| (B0 <<< 3) ||| (B0 <<< 2) ||| (B0 <<< 1) ||| (bcd &&& DI))
  else if sel = (D0 ||| D2) then
    some (((bcd &&& DD) <<< 3) ||| ((bcd &&& DE) <<< 3) ||| ((bcd &&& DC) >>> 1) ||| 0 ||| (B0 <<< 5) ||| (bcd &&& DF) ||| (B0 <<< 3) ||| (B0 <<< 2) ||| (B0 <<< 1) ||| (bcd &&& DI))
  else if sel = (D0 ||| D1 ||| D2) then
    some (0 ||| 0 ||| ((bcd &&& DC) >>> 1) ||| (B0 <<< 6) ||| (B0 <<< 5) ||| (bcd &&& DF) ||| (B0 <<< 3) ||| (B0 <<< 2) ||| (B0 <<< 1) ||| (bcd &&& DI))
  else none

/-- IEEE 754-2019 Table 3.4 (encoding), written arithmetically: digits a b c (a most significant). -/
def bit (x i : Nat) : Nat := (x >>> i) % 2
def specDpd (a b c : Nat) : Nat :=
  let a0 := bit a 3; let a1 := bit a 2; let a2 := bit a 1; let a3 := bit a 0
  let b0 := bit b 3; let b1 := bit b 2; let b2 := bit b 1; let b3 := bit b 0
  let c0 := bit c 3; let c1 := bit c 2; let c2 := bit c 1; let c3 := bit c 0
  -- output bits p q r s t u v w x y  (p = bit 9)
  let mk (p q r s t u v w x y : Nat) : Nat := p*512+q*256+r*128+s*64+t*32+u*16+v*8+w*4+x*2+y
  match a0, b0, c0 with
  | 0,0,0 => mk a1 a2 a3 b1 b2 b3 0 c1 c2 c3
  | 0,0,1 => mk a1 a2 a3 b1 b2 b3 1 0 0 c3
  | 0,1,0 => mk a1 a2 a3 c1 c2 b3 1 0 1 c3
  | 1,0,0 => mk c1 c2 a3 b1 b2 b3 1 1 0 c3
  | 1,1,0 => mk c1 c2 a3 0 0 b3 1 1 1 c3
  | 1,0,1 => mk b1 b2 a3 0 1 b3 1 1 1 c3
  | 0,1,1 => mk a1 a2 a3 1 0 b3 1 1 1 c3
  | _,_,_ => mk 0 0 a3 1 1 b3 1 1 1 c3

def allOk : Bool :=
  (List.range 10).all fun a => (List.range 10).all fun b => (List.range 10).all fun c =>
    encDpd (a*256 + b*16 + c) == some (specDpd a b c)

theorem enc_ok : allOk = true := by decide +kernel

theorem enc_ok' : ∀ a < 10, ∀ b < 10, ∀ c < 10, encDpd (a*256 + b*16 + c) = some (specDpd a b c) := by
  decide +kernel

-- splice lemma
theorem splice (x s : Nat) (hx : x < 1024) (hs : s = 0 ∨ s = 2 ∨ s = 4 ∨ s = 6) :
    ((x <<< s) % 256) + 256 * ((x >>> (8 - s)) % 256) = (x <<< s) % 65536 := by
  rcases hs with rfl | rfl | rfl | rfl <;> simp [Nat.shiftLeft_eq, Nat.shiftRight_eq_div_pow] <;> omega

end P
#print axioms P.enc_ok
#print axioms P.enc_ok'
#print axioms P.splice
