import Lp2.Buf
/-!
Prototype: `exec` (with explicit panic outcomes) vs `pure`, for the loop that ORs declets into
the buffer (`encode_significand_trailing_digits` → `encode_bcd_declet_to_dpd`'s two byte writes).
-/
namespace P

inductive Outcome (α : Type) where
  | ok (a : α)
  | err (e : String)
  | panic (site : String)
deriving Repr

instance : Monad Outcome where
  pure := .ok
  bind x f := match x with
    | .ok a => f a
    | .err e => .err e
    | .panic s => .panic s

@[simp] theorem Outcome.ok_bind {α β} (a : α) (f : α → Outcome β) : (Outcome.ok a >>= f) = f a := rfl
@[simp] theorem Outcome.pure_eq {α} (a : α) : (pure a : Outcome α) = .ok a := rfl

structure Buf where
  len : Nat
  bits : Nat
deriving Repr

/-- `buf[i] |= v as u8`, panicking like a Rust slice index -/
def Buf.orAt (b : Buf) (i v : Nat) : Outcome Buf :=
  if i < b.len then .ok { b with bits := orByte b.bits i v } else .panic "index out of bounds"

/-- the tail of `encode_bcd_declet_to_dpd`: two byte writes -/
def writeDpd (b : Buf) (dpd bit : Nat) : Outcome Buf := do
  let b ← b.orAt (bit / 8) (dpd <<< (bit % 8))
  b.orAt (bit / 8 + 1) (dpd >>> (8 - bit % 8))

/-- the loop of `encode_significand_trailing_digits`, one DPD group per iteration -/
def writeAll : List Nat → Nat → Buf → Outcome Buf
  | [], _, b => .ok b
  | d :: ds, bit, b => do
      let b ← writeDpd b d bit
      writeAll ds (bit + 10) b

/-- pure counterpart: the groups packed 10 bits apart -/
def pack : List Nat → Nat
  | [] => 0
  | d :: ds => d ||| (pack ds <<< 10)

theorem even_mod8 (bit : Nat) (h : bit % 2 = 0) : bit % 8 = 0 ∨ bit % 8 = 2 ∨ bit % 8 = 4 ∨ bit % 8 = 6 := by omega

theorem writeDpd_ok (b : Buf) (dpd bit : Nat) (hd : dpd < 1024) (he : bit % 2 = 0) (hb : bit / 8 + 1 < b.len) :
    writeDpd b dpd bit = .ok { b with bits := b.bits ||| (dpd <<< bit) } := by
  have h0 : bit / 8 < b.len := by omega
  simp only [writeDpd, Buf.orAt, h0, hb, if_true, bind, Outcome.ok_bind]
  show Outcome.ok _ = _
  congr 2
  exact write_dpd b.bits dpd bit hd (even_mod8 bit he)

theorem writeAll_ok (ds : List Nat) (bit : Nat) (b : Buf)
    (hd : ∀ d ∈ ds, d < 1024) (he : bit % 2 = 0) (hb : bit + 10 * ds.length ≤ 8 * b.len - 8 ∨ ds = []) :
    writeAll ds bit b = .ok { b with bits := b.bits ||| (pack ds <<< bit) } := by
  induction ds generalizing bit b with
  | nil => simp [writeAll, pack]
  | cons d ds ih =>
    have hlen : bit + 10 * (ds.length + 1) ≤ 8 * b.len - 8 := by
      rcases hb with h | h
      · simpa using h
      · cases h
    have hd1 : d < 1024 := hd d (by simp)
    have hidx : bit / 8 + 1 < b.len := by omega
    simp only [writeAll, bind]
    rw [writeDpd_ok b d bit hd1 he hidx]
    simp only [Outcome.ok_bind]
    show writeAll ds (bit + 10) _ = _
    rw [ih (bit + 10) _ (fun x hx => hd x (by simp [hx])) (by omega)
          (by cases ds with
              | nil => right; rfl
              | cons _ _ => left; simp at hlen ⊢; omega)]
    congr 2
    simp only [pack, Nat.or_assoc]
    congr 1
    rw [Nat.shiftLeft_or_distrib, ← Nat.shiftLeft_add]
    congr 2; omega

/-- and the failure mode is visible: too short a buffer panics rather than silently succeeding -/
example : writeAll [1, 2] 0 ⟨2, 0⟩ = .panic "index out of bounds" := by rfl

end P
#print axioms P.writeAll_ok
