#!/bin/sh
# Build the framework from files on disk only (offline): Lean library + proofs + driver, Rust harness variants.
set -e
cd "$(dirname "$0")"
export CARGO_NET_OFFLINE=true
(cd lean && lake build)
./check --build
