#!/bin/sh
# usage: ./tools_one.sh <request...>   — run one request in both profiles and judge it
for v in debug release; do
  a=$(/verif/harness/target/$v/harness one "$@")
  echo "[$v] $a"
  echo "$* => $a" | /verif/lean/.lake/build/bin/driver
done
