#!/usr/bin/env python3
"""Advisory stage of C05: validate the *placement of the panic sites* of the checked Lean model
(lean/Decstr/Model/Exec*.lean) against the real crate.

The crate is built with `--cfg decstr_verif`, which exposes `decstr::verif_hooks` (thin wrappers around crate-internal
functions).  The hooked harness calls them on in-contract and out-of-contract arguments in the dev and the release
profile (`x_<name> <dbg|rel> <args> => ok:<value>|panic`); the Lean driver answers the same requests from the checked
model (`Decstr/Model/ExecHooks.lean`); this script compares and summarises.

  tools/site_validation.py [--repo /repo] [--tier quick|thorough] [--seed 1] [--work DIR] [--out FILE.json] [--nobig]

It never fails the caller: exit code 0 always (2 for a usage error).  If the hooked harness (or the driver) does not
build — e.g. after an upstream refactor moved an internal function — it prints one line
`SITE-VALIDATION unavailable: <first compiler error>` and stops.
"""
import argparse, collections, json, os, re, shutil, subprocess, sys, threading, time

VERIF = os.path.dirname(os.path.dirname(os.path.abspath(__file__)))
LEAN = os.path.join(VERIF, "lean")
DRIVER = os.path.join(LEAN, ".lake", "build", "bin", "driver")
ENV = dict(os.environ, CARGO_NET_OFFLINE="true")
NCPU = min(16, os.cpu_count() or 4)


def unavailable(why):
    print("SITE-VALIDATION unavailable: " + " ".join(why.split())[:300])
    sys.exit(0)


def first_error(text):
    lines = text.splitlines()
    for i, l in enumerate(lines):
        if l.startswith("error"):
            loc = next((x.strip() for x in lines[i + 1:i + 4] if x.strip().startswith("-->")), "")
            return (l + " " + loc).strip()
    return (lines[-1] if lines else "no output")


def prepare_harness(repo, work):
    """the harness sources with the path dependency pointing at `repo` (a scratch copy unless it already does)"""
    src = os.path.join(VERIF, "harness")
    toml = open(os.path.join(src, "Cargo.toml")).read()
    m = re.search(r'decstr\s*=\s*\{\s*path\s*=\s*"([^"]*)"', toml)
    if m and os.path.realpath(m.group(1)) == os.path.realpath(repo):
        return src
    dst = os.path.join(work, "harness-hooks")
    os.makedirs(dst, exist_ok=True)
    with open(os.path.join(dst, "Cargo.toml"), "w") as f:
        f.write(re.sub(r'(decstr\s*=\s*\{\s*path\s*=\s*)"[^"]*"', r'\1"%s"' % repo, toml))
    lock = os.path.join(src, "Cargo.lock")
    shutil.copy(lock if os.path.exists(lock) else os.path.join(repo, "Cargo.lock"), os.path.join(dst, "Cargo.lock"))
    shutil.copytree(os.path.join(src, "src"), os.path.join(dst, "src"), dirs_exist_ok=True)
    if os.path.isdir(os.path.join(src, ".cargo")):
        shutil.copytree(os.path.join(src, ".cargo"), os.path.join(dst, ".cargo"), dirs_exist_ok=True)
    return dst


def build_hooked(harn, nobig):
    """dev and release, `--cfg decstr_verif`, own target dir; returns {label: binary}"""
    env = dict(ENV, RUSTFLAGS=(ENV.get("RUSTFLAGS", "") + " --cfg decstr_verif").strip())
    variants = {"dbg": ([], "target/hooks", "debug"), "rel": (["--release"], "target/hooks", "release")}
    if nobig:
        variants["dbg-nobig"] = (["--no-default-features"], "target/hooks-nobig", "debug")
        variants["rel-nobig"] = (["--release", "--no-default-features"], "target/hooks-nobig", "release")
    procs = []
    for label, (args, tdir, sub) in variants.items():
        cmd = ["cargo", "build"] + args + ["--offline", "--quiet", "--target-dir", os.path.join(harn, tdir)]
        procs.append((label, tdir, sub, subprocess.Popen(cmd, cwd=harn, env=env, stdout=subprocess.PIPE, stderr=subprocess.STDOUT, text=True)))
    bins = {}
    for label, tdir, sub, p in procs:
        out, _ = p.communicate()
        if p.returncode != 0:
            unavailable(f"hooked harness ({label}) does not build: " + first_error(out))
        bins[label] = os.path.join(harn, tdir, sub, "harness")
    return bins


def run_driver(lines):
    k = max(1, min(NCPU, len(lines) // 5000 + 1))
    size = (len(lines) + k - 1) // k
    chunks = [lines[i * size:(i + 1) * size] for i in range(k)]
    outs = [None] * k

    def feed(i):
        p = subprocess.run([DRIVER], input="\n".join(chunks[i]) + "\n", stdout=subprocess.PIPE, text=True)
        outs[i] = p.stdout.splitlines() if p.returncode == 0 else None
    ths = [threading.Thread(target=feed, args=(i,)) for i in range(k)]
    [t.start() for t in ths]
    [t.join() for t in ths]
    res = []
    for c, o in zip(chunks, outs):
        if o is None or len(o) != len(c):
            unavailable("the model driver failed or returned a wrong number of lines")
        res.extend(o)
    return res


def model_sites():
    """every site string of the checked model (string literals `file.rs:NNN what` in Exec*.lean)"""
    sites = set()
    lit = re.compile(r'"((?:[^"\\]|\\.)*)"')
    for fn in ("Exec.lean", "ExecText.lean", "ExecConvert.lean", "ExecApi.lean"):
        for s in lit.findall(open(os.path.join(LEAN, "Decstr", "Model", fn)).read()):
            s = s.replace('\\"', '"')
            if not re.match(r"^[a-z_/]+\.rs:\d+", s):
                continue
            if " " in s:
                sites.add(s)
            elif s.startswith("combination.rs:"):      # `lastIndexC site`: site ++ " buf.len() - 1" / " buf[buf.len() - 1]"
                sites.add(s + " buf.len() - 1")
                sites.add(s + " buf[buf.len() - 1]")
            elif s.startswith("text/buf/str.rs:"):     # `dbgStr site`
                sites.add(s + " self.ascii[self.index]")
                sites.add(s + " debug_assert_eq!")
            else:
                sites.add(s)
    return sites


def main():
    ap = argparse.ArgumentParser()
    ap.add_argument("--repo", default=os.environ.get("VERIF_REPO", "/repo"))
    ap.add_argument("--tier", default="quick", choices=["quick", "thorough"])
    ap.add_argument("--seed", default="1")
    ap.add_argument("--work", default=os.path.join(os.environ.get("VERIF_OUT", VERIF), "work", "site_validation"))
    ap.add_argument("--out", default=None)
    ap.add_argument("--nobig", action="store_true", help="also run the binaries built without `arbitrary-precision`")
    ap.add_argument("--examples", type=int, default=3)
    a = ap.parse_args()
    t0 = time.time()
    os.makedirs(a.work, exist_ok=True)

    if not os.path.exists(os.path.join(a.repo, "src", "verif_hooks.rs")):
        unavailable(f"{a.repo}/src/verif_hooks.rs does not exist (the hook module is not part of this tree)")
    harn = prepare_harness(a.repo, a.work)
    bins = build_hooked(harn, a.nobig)
    r = subprocess.run(["lake", "build", "driver"], cwd=LEAN, stdout=subprocess.PIPE, stderr=subprocess.STDOUT, text=True)
    if r.returncode != 0:
        unavailable("the model driver does not build: " + first_error(r.stdout))

    req = os.path.join(a.work, f"X05-{a.tier}-{a.seed}.req")
    with open(req, "w") as f:
        g = subprocess.run([bins["dbg"], "gen", "X05", a.tier, a.seed], stdout=f, stderr=subprocess.PIPE, text=True)
    if g.returncode != 0:
        unavailable("generator failed: " + g.stderr[-200:])
    strata = [l.split("\t")[0] for l in open(req)]

    answers = {}
    for label, binary in bins.items():
        with open(req) as fin:
            p = subprocess.run([binary, "run"], stdin=fin, stdout=subprocess.PIPE, stderr=subprocess.PIPE, text=True, env=ENV)
        if p.returncode != 0:
            unavailable(f"hooked harness ({label}) aborted (rc={p.returncode}): a panic escaped catch_unwind or the process was killed")
        answers[label] = p.stdout.splitlines()
        if len(answers[label]) != len(strata):
            unavailable(f"hooked harness ({label}) answered {len(answers[label])} of {len(strata)} requests")

    verdicts = {label: run_driver(lines) for label, lines in answers.items()}
    all_sites = model_sites()
    canon = {s.replace("_", " "): s for s in all_sites}      # the driver prints sites with `_` for spaces

    # ---- summarise ---------------------------------------------------------------------------------------------
    per = collections.defaultdict(lambda: collections.Counter())
    site_hits = collections.defaultdict(collections.Counter)
    rows = collections.defaultdict(dict)       # request text (without profile) -> {label: (model, impl, site)}
    in_contract_panics = []
    for label in answers:
        prof = label.split("-")[0]
        for stratum, line, v in zip(strata, answers[label], verdicts[label]):
            name = line.split(" ", 1)[0]
            head, _, impl = line.partition(" => ")
            parts = head.split(" ")
            key = " ".join([parts[0]] + parts[2:])
            f1, model, f3 = (v.split(" ## ") + ["", ""])[:3]
            c = per[(name, label)]
            c["requests"] += 1
            if f1.startswith("SKIP"):
                c["skipped"] += 1
                continue
            if f1.startswith("BAD"):
                c["bad"] += 1
                continue
            site = f3[len("OK site="):] if f3.startswith("OK site=") else None
            c["impl_panics"] += impl == "panic"
            c["model_panics"] += model == "panic"
            c["agree"] += f1 == "OK"
            c["disagree"] += f1.startswith("VIOL")
            if site:
                site = canon.get(site.replace("_", " "), site)
                site_hits[site][prof] += 1
                if impl == "panic":
                    site_hits[site][prof + "_impl_also"] += 1
            if stratum.endswith("/in") and (impl == "panic" or model == "panic"):
                in_contract_panics.append(f"{line} [model: {model}]")
            if f1.startswith("VIOL"):
                rows[key][label] = (model, impl, site)

    def classify(d):
        m = {l for l, (mo, im, _) in d.items() if mo == "panic" and im != "panic"}
        i = {l for l, (mo, im, _) in d.items() if im == "panic" and mo != "panic"}
        if m and i:
            return "c"     # the two sides panic in different profiles
        if m:
            return "a"     # a site the model has and Rust does not reach
        if i:
            return "b"     # a Rust panic the model lacks
        return "v"         # both return values, and they differ

    groups = collections.defaultdict(list)
    for key, d in rows.items():
        cls = classify(d)
        name = key.split(" ", 1)[0]
        profs = ",".join(sorted(d))
        sites = ",".join(sorted({s for (_, _, s) in d.values() if s})) or "-"
        groups[(cls, name, profs, sites)].append((key, d))

    hit = set(site_hits)
    never = sorted(s for s in all_sites if s not in hit)
    unknown = sorted(s for s in hit if s not in all_sites)

    tot = collections.Counter()
    for c in per.values():
        tot.update(c)
    result = {
        "repo": a.repo, "tier": a.tier, "seed": a.seed, "profiles": sorted(answers),
        "requests": len(strata), "executions": tot["requests"], "agree": tot["agree"], "disagree": tot["disagree"],
        "skipped": tot["skipped"], "malformed": tot["bad"],
        "per_function": {f"{n} {l}": dict(c) for (n, l), c in sorted(per.items())},
        "disagreements": [
            {"class": cls, "function": name, "profiles": profs, "model_site": sites, "count": len(items),
             "examples": [{"request": k, **{l: {"model": mo, "impl": im} for l, (mo, im, _) in d.items()}} for k, d in items[:a.examples]]}
            for (cls, name, profs, sites), items in sorted(groups.items())],
        "sites_total": len(all_sites), "sites_exercised": {s: dict(c) for s, c in sorted(site_hits.items())},
        "sites_never_exercised": never, "sites_not_in_sources": unknown,
        "in_contract_panics": in_contract_panics[:20],
        "seconds": round(time.time() - t0, 1),
    }
    if a.out:
        with open(a.out, "w") as f:
            json.dump(result, f, indent=1)

    print(f"SITE-VALIDATION {a.tier} seed={a.seed}: {len(strata)} requests x {len(answers)} binaries = {tot['requests']} executions; "
          f"agree {tot['agree']}, disagree {tot['disagree']}, skipped {tot['skipped']}, malformed {tot['bad']}; "
          f"{len(hit)}/{len(all_sites)} model sites exercised; {result['seconds']} s")
    print(f"{'function':22} " + " ".join(f"{l + ' req':>9} {'impl!':>6} {'model!':>6} {'diff':>5}" for l in sorted(answers)))
    for n in sorted({n for (n, _) in per}):
        print(f"{n:22} " + " ".join(
            f"{per[(n, l)]['requests']:9} {per[(n, l)]['impl_panics']:6} {per[(n, l)]['model_panics']:6} {per[(n, l)]['disagree']:5}" for l in sorted(answers)))
    if in_contract_panics:
        print(f"!! {len(in_contract_panics)} panics on in-contract strata, e.g. {in_contract_panics[0]}")
    names = {"a": "(a) model site not reached by Rust", "b": "(b) Rust panic the model lacks", "c": "(c) profile mismatch",
             "v": "(v) values differ, no panic"}
    for (cls, name, profs, sites), items in sorted(groups.items()):
        print(f"DISAGREE {names[cls]}: {name} [{profs}] model site {sites}: {len(items)} requests")
        for k, d in items[:a.examples]:
            print("    " + k + "  " + "; ".join(f"{l}: model={mo} impl={im}" for l, (mo, im, _) in sorted(d.items())))
    print(f"sites never exercised ({len(never)}): " + "; ".join(never))
    if unknown:
        print("sites returned by the model but not found in Exec*.lean: " + "; ".join(unknown))


if __name__ == "__main__":
    main()
