#!/usr/bin/env python3
"""Regenerate /verif/MANIFEST.json from lean/theorems.json and the per-property level texts below."""
import json, os

VERIF = os.path.dirname(os.path.dirname(os.path.abspath(__file__)))
thms = json.load(open(os.path.join(VERIF, "lean", "theorems.json")))

COMMON_NOTE = ("Trusted: Lean 4.33 kernel (axioms propext, Quot.sound, Classical.choice only; audited by #print axioms on every run); "
               "Decstr.Spec (my formalisation of IEEE 754-2019 §3.5, the numeral grammar and the property's judgement); the hand-written Lean model, "
               "tied to /repo on every run by the correspondence check (real crate in-process in debug+release vs. the compiled model driver; complete on the "
               "enumerated finite sets, differential testing elsewhere); the Rust harness and the Python comparison. ")

LEVEL = {
 "C01": ("Theorem C01_encodeFinite (all types, all widths 32n by induction on the byte loops, every digit string and exponent): the bytes are exactly Spec.encodeFin of "
         "(written sign, written digits as an integer, written exponent − fractional digits) at the allocated width, or a truthful overflow error; the DPD arms equal IEEE Table 3.4 "
         "(decide +kernel over 1000 triples); with the parser theorem (C06) this is lifted to try_parse_str/try_parse. The tie to the Rust code is the per-run correspondence.",
         "Modelled at concatenation level: the chunked reverse digit reader next_ascii_declet_rev (covered by the correspondence: every position of the decimal point is generated)."),
 "C02": ("Theorem C02_format: for every bit pattern of every width 32n (canonical or not) and every type able to hold it, the model's Display text parses under the grammar, denotes exactly "
         "Spec.decode of the pattern, has a decimal point in multi-digit scientific output and at most p written digits. Decoder = IEEE Table 3.3 on all 1024 code points; both exponent "
         "iterators (aligned n%4=3, shifted) proved for all n.", "Debug = Display is definitional in the model and compared on the implementation."),
 "C03": ("Round trips as corollaries of C01 (encoder), C02 (formatter, incl. 'at most p written digits' so the reparse is never rejected), C06 (parser) and the Spec-level theorems "
         "decode_encodeFin / decode_canon / canon_idem; until the corollaries are stated as single theorems the obligations listed are their ingredients.", ""),
 "C04": ("C01_encodeFinite + C07_alloc: a finite numeral is given a buffer iff the smallest sufficient width for its written digits and exponent is within the type's capacity, then encoded "
         "exactly; otherwise an overflow error — no third outcome in the model; saturating i32 exponent arithmetic proved not to change the decision (satI32 lemmas).",
         "The property leaves the gap 'written digits > p ≥ digits without leading zeros' to the implementation; the theorem says the code counts written digits."),
 "C05": ("Theorem C05x_no_panic: a *checked* model (lean/Decstr/Model/Exec*.lean) makes every panic site of the Rust code explicit — slice/array indexing and slicing, expect/unwrap, unreachable!, "
         "debug_assert*!, integer overflow and u8 underflow, in both build profiles (`checks : Bool`) — and every public operation (try_parse_str, try_parse, try_from_le_bytes, the six classifiers, "
         "Display, to_<int>, to_f32/f64 incl. the infallible Bitstring32::to_f64, from_<int>, from_f32/f64, max/min/min_positive) is proved to reach none of them for every input; C05x_closed: every value "
         "the library produces is again a valid argument, so sequences of operations are covered. In addition every request of every property is executed under catch_unwind in debug and release with "
         "features {}, {std}, {arbitrary-precision}.",
         "The checked model's panic sites were transcribed by reading the Rust source; on a tree where the property holds no panic occurs at the public API, so their *placement* is validated separately: "
         "an advisory stage of this check calls the crate-internal functions through the cfg(decstr_verif) hook module on in- and out-of-contract arguments in both profiles and compares value|panic with the "
         "checked model (evidence: site_validation; 62 of 129 sites reached, on every one of them Rust and the model panic on exactly the same requests in the same profile; DESIGN §10.7). It never changes the verdict. "
         "Not modelled: usize +/* of length-bounded quantities, `as` casts, num-bigint/itoa/ryu internals, from_utf8 of ASCII literals, allocation failure, stack exhaustion. toText requires a decimal below ~950 MB. "
         "from_f32/f64 relative to the formatter contract (C12)."),
 "C06": ("Theorems: the model's DecimalParser (state machine over flags/cursor with the str buffer's ranges) accepts exactly the language of Spec.parse and assigns every byte to the field "
         "the grammar assigns it, for every byte list; Spec.parse is validated against a declarative transcription of the regular expression (parse_iff_matches).", ""),
 "C07": ("Theorems C07_alloc, C07_bitstring_ok_iff, C07_big_total over all digit counts d ≥ 1 and all exponents e : Int: the allocated width is sufficient, at most 32 bits above the "
         "smallest sufficient width need d e, exactly minimal up to 160 bits; Bitstring fails iff need > 160 bits; both width tables and the log2/ceil formulas proved (Widths.lean).", ""),
 "C08": ("Theorems C08_partition, C08_nan_kinds, C08_ieee: for every buffer of every width 32n the six classifiers are a partition, NaN kinds are exclusive, and all equal what "
         "Spec.decode assigns to the combination field (decide +kernel over the 256 last-byte values, lifted by div/mod arithmetic). The seven masks the classifiers use are translated out of src/binary/combination.rs on every run (tools/gen_masks.py) and proved equal to the model's constants (7 generated theorems, DESIGN §10.12).", "The shape of the comparisons (`& mask == value`) is tied by the correspondence, not by the translator."),
 "C09": ("Theorems C09_inf, C09_nan_none, C09_nan_payload: canonical IEEE patterns at the right width for every type, payload stored as an integer, widening / truthful rejection by "
         "C07_alloc; Spec-level decode_encodeInf/decode_encodeNan; formatting side by C02 (fmtNan_spec).", ""),
 "C10": ("Integer → decimal is the composition itoa text → FiniteParser → encoder; theorems: C01_encodeFinite for the digits of toDecimal v with exponent 0, and C10_back_core "
         "(converting back returns v) on top of the C11 characterisation.", "itoa is modelled as Spec.toDecimal and compared on every request."),
 "C11": ("Theorems C11_eq/C11_sound/C11_complete/C11_specials for every bit pattern of every width and every target of at most 128 bits, against exact integer arithmetic "
         "(exactInt, IsValue): Some i iff the exact value is the integer i inside the range (negative sign never into unsigned); NaN/infinity always None.", ""),
 "C12": ("Theorems C12_finite(_wide), C12_infallible_wide, C12_specials, C12_back(_wide), C12_back_inf, C12_value, relative to the explicit hypothesis RyuContractWide about the float "
         "formatter's text (finite numeral with the float's sign, at most 34 written / 17 significant digits, small exponent, rounds to the float): the decimal is the exact encoding of that "
         "text's (sign, digits, exponent) at the C07 width, fails only when it does not fit (None for the fallible conversions, never for the ones offered as From), specials map to ±inf and a "
         "quiet payload-free NaN of the same sign, and converting back returns the identical bits. Judged2.judgeGrammarReject_model(_fmt): the model never answers a grammatical string with a syntax-class error (the oracle's C06 wrongful-rejection rule). Judged2.judgeClassAgree_toInt/toFloat_model: the conversions act on the class the classifiers report (the oracle's C08 rule on to_<int>/to_f32/to_f64 of infinities and NaNs).",
         "ryu is an external crate: RyuContractWide is assumed, not proved; the harness passes ryu's text for the same float and the Lean oracle re-checks every clause of the contract on "
         "every request (evidence: assumed_contract_broken). str::parse is modelled as Spec.rneDecSafe, proved to be round-to-nearest-even (Proofs.Rne). Sweeps: from_f32→to_f32 gives back "
         "identical bits on every f32 bit pattern (thorough: all 2^32 for Bitstring32/64/Bitstring; quick: a strided tenth)."),
 "C13": ("Theorems C13_nearest (a Some is the finite float nearest to the decimal's exact rational value, the even one on a tie, with the decimal's sign), C13_overflow_threshold, C13_sound, C13_overflow, C13_infinity, C13_nan, C13_some, C13_b32_total: a Some is the round-to-nearest-even float of the exact value with the decimal's sign, "
         "None on overflow, Some guaranteed for ≤17 significant digits at widths ≤160 bits, every Bitstring32 converts to f64; scratch-buffer arithmetic floatText_some_iff.",
         "Relative to the model of str::parse::<f32|f64> as Spec.rneDecSafe, which is itself proved to be IEEE round-to-nearest-even over exact rationals "
         "(Proofs.Rne: nearest among all finite patterns, ties to the even pattern, overflow exactly from (2^prec − 1/2)·2^(emax−prec+1), monotone; also stated over ℚ); that the real "
         "str::parse rounds that way is assumed and compared on every request incl. generated ties and, in the sweeps, against the Display text on all 2^32 Bitstring32 patterns (thorough)."),
 "C14": ("Theorems C14_frag, C14_fits, C14_fault, C14_swallow for every fragment list (empty fragments included), every capacity and all three buffer kinds: streaming = string parse of the "
         "concatenation, or buffer-too-small only when the text is longer than the buffer; a failing or error-swallowing Display never yields a value. Per run the answers of try_parse and try_parse_str are also compared with each other on every text that went through both.",
         "core::fmt's delivery of fragments is modelled by `feed`."),
 "C15": ("All codec theorems (C01, C02, C08, C09, C11, C13) are stated for an arbitrary type parameter T and depend on it only through capacity and satI32, so two types holding the same "
         "bytes / accepting the same numeral provably agree in the model; the per-run check additionally compares the implementation's answers pairwise across the five types.",
         "The BigInt exponent path is modelled as Int arithmetic; its agreement with the i32 path on the implementation is by the pairwise comparison."),
 "C16": ("Theorems C16_le_roundtrip, C16_be_inverse, C16_try_accepts, C16_try_verbatim, C17_len_error over all byte lists; the substance is the correspondence (index-probe arrays detect any "
         "transposed index in the literal big-endian index lists). The six literal index lists of to_be_bytes/from_be_bytes are also translated out of src/bitstring/fixed{32,64,128}.rs on every run (tools/gen_be.py) and proved to be the reversal for every array of the type's length (12 generated theorems + C16_be_gather, DESIGN §10.12).", ""),
 "C17": ("Overflow errors: C01_encodeFinite / C09_nan_payload prove the needed width named is larger than the capacity, a multiple of 4 and sufficient; length errors: C17_len_error; "
         "syntax errors: first-bad-byte / unexpected-end theorems of the parser package; integers and floats refused by the TryFrom impls: C17_conv_int / C17_conv_float "
         "(the error of the model's TryFrom is wouldOverflow(capacity, needed) with needed larger, a multiple of 4, sufficient, and the capacity really too small), judgeConvErr*_model; "
         "the per-run check extracts the facts from the implementation's message text.",
         "The message wording itself is outside the projection (facts are extracted by the pinned wording first, by keywords and the figures named otherwise)."),
 "C18": ("Theorems C18_fns, C18_decode_limits, C18_extremes, C18_exp: max()/min()/min_positive() are ±(10^p−1)·10^qmax and 10^qmin for every width; every finite pattern lies within and, "
         "if non-zero, above (exact comparison after scaling by 10^bias); DIGITS-digit numerals are accepted exactly on [qmin, qmax]. Judged2.judgeWithinLimits_model + leScaled_iff: the value every bit pattern of a fixed-width type prints lies within ±MAX and, if non-zero, at or above MIN_POSITIVE (exact comparison over Q).",
         "The byte constants MAX/MIN/MIN_POSITIVE/ZERO/ONE/NEG_ONE and DIGITS/*_10_EXP are translated out of src/bitstring/fixed{32,64,128}.rs on every run (tools/gen_consts.py) and each is re-proved by kernel evaluation to be the specification's encoding (27 generated theorems, DESIGN §10.12); they are also compared by the `consts` request."),
}


def main():
    props = [json.loads(l) for l in open(os.path.join(VERIF, "properties.jsonl"))]
    checks = []
    for p in props:
        i = p["id"]
        text, note = LEVEL[i]
        n = len(thms.get(i, {}).get("theorems", []))
        cat = "proof" if n > 0 else "exploration"
        checks.append({
            "property_id": i,
            "quick_cmd": f"./check {i} quick",
            "thorough_cmd": f"./check {i} thorough",
            "evidence_file": f"/verif/evidence/{i}.json",
            "replay_cmd_template": "./check --replay {path}",
            "engine": "lean-model+correspondence",
            "level_claimed": {"category": cat, "text": text + f" [{n} theorems audited per run]", "design_ref": "DESIGN.md §10.4, §5 " + i},
            "level_note": COMMON_NOTE + note,
            "technique": ("Lean 4 machine-checked proof about a hand-written model + per-run model/implementation correspondence check with the Lean specification as oracle"
                          + ("; the published constants are translated from the source on every run and re-proved by kernel evaluation" if i in ("C18", "C09") else "; the literal big-endian index lists are translated from the source on every run and proved to be the reversal" if i == "C16" else "; the combination-field masks are translated from the source on every run and proved equal to the model's" if i == "C08" else "; the literal width-selection tables are translated from the source on every run and proved to be the IEEE format parameters and the model's tables" if i == "C07" else "")
                          if i != "C05" else "Lean 4 machine-checked proof that a checked model with every Rust panic site explicit never panics + catch_unwind execution of every operation in 2 profiles x 3 feature sets"),
        })
    m = {
        "version": 1,
        "setup_cmd": "./setup.sh",
        "hooks": {"guard": "decstr_verif",
                  "enable": "RUSTFLAGS=\"--cfg decstr_verif\" (set by tools/site_validation.py for the hooked harness build only). Every check decides its property "
                            "through the public API with the guard off; the hook module src/verif_hooks.rs only serves the advisory site-validation stage of C05 (DESIGN §10.7)",
                  "baseline_off_cmd": "cd /repo && cargo test --workspace --no-fail-fast --offline", "source_commits": ["84d87ae"], "add_only": True},
        "engines": [{"name": "lean-model+correspondence", "path": "/verif/check", "serves_properties": [p["id"] for p in props],
                     "kind_free_text": "Lean 4 spec + model + theorems (lean/), Rust harness calling the real crate in-process (harness/), line protocol, Python driver/comparison (check)"}],
        "checks": checks,
        "notes": "See DESIGN.md §10 for what is proved per property and what is tied by the correspondence only. /repo carries 14 unguarded `fix:` commits (known_findings.txt) and one add-only hook commit guarded by cfg(decstr_verif).",
        "not_applicable": [],
    }
    json.dump(m, open(os.path.join(VERIF, "MANIFEST.json"), "w"), indent=1)
    print("MANIFEST.json written:", {c["property_id"]: c["level_claimed"]["category"] for c in checks})


if __name__ == "__main__":
    main()
