import Decstr.Model.Chunks
open Decstr.Model

partial def compositions (total parts : Nat) : List (List Nat) :=
  if parts ≤ 1 then [[total]] else
  (List.range (total+1)).flatMap fun i => (compositions (total - i) (parts - 1)).map fun r => i :: r

def cut (s : List Nat) : List Nat → List (List Nat)
  | [] => []
  | l :: ls => s.take l :: cut (s.drop l) ls

def run (s : String) (parts : Nat) : IO Unit := do
  let ds := s.toList.map Char.toNat
  for lens in compositions ds.length parts do
    for nbytes in [4, 8, 12, 16] do
      let ls := ",".intercalate (lens.map toString)
      match encodeSignificandChunks? (Buf.zero nbytes) (cut ds lens) with
      | some (b, m) => IO.println s!"{ls} {nbytes} {b.bits} {m}"
      | none => IO.println s!"{ls} {nbytes} PANIC"

def main : IO Unit := do
  let s40 := "9876543210123456987654321012345698765432"
  let s12 := "123456789012"
  let s7 := "1234567"
  run s40 1; run s40 2; run s40 3; run s12 4; run s7 5; run s7 1; run s7 2; run s7 3
#eval main
