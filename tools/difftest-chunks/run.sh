#!/bin/sh
# Differential test of Decstr/Model/Chunks.lean against the compiled Rust code (not part of the Lean build).
# Builds a harness whose function bodies are cut VERBATIM out of /repo/src/binary/significand.rs by line number
# (next_ascii_declet_rev l.137-222, the loop/MSD body l.40-74, the BCD/DPD encoders l.278-300, l.345-585), runs it in a
# release and a debug (debug-assertions + overflow-checks) build over 6932 (chunks, width) cases -- all 1/2/3-way splits of
# a 40-digit string, 4-way splits of 12 digits, 5-way splits of 7 digits, EMPTY CHUNKS INCLUDED, widths 4/8/12/16 bytes --
# printing buffer value and MSD or PANIC, and compares with the same table printed by `encodeSignificandChunks?`.
set -e
cd "$(dirname "$0")"
W=$(mktemp -d)
{
cat <<'RS'
use std::panic;
pub struct MostSignificantDigit(u8);
impl MostSignificantDigit {
    pub(crate) fn zero() -> Self { MostSignificantDigit(0) }
    pub(crate) fn from_ascii(digit: u8) -> Self { MostSignificantDigit(encode_ascii_digit_to_bcd(digit)) }
}
fn encode(decimal: &mut [u8], max_digits: usize, mut chunks: Vec<&[u8]>) -> MostSignificantDigit {
    let n = chunks.len();
    let mut chunk_index = Some(n - 1);
RS
sed -n '40,74p' /repo/src/binary/significand.rs
sed -n '137,222p' /repo/src/binary/significand.rs
sed -n '278,300p' /repo/src/binary/significand.rs
sed -n '345,585p' /repo/src/binary/significand.rs
cat <<'RS'
fn compositions(total: usize, parts: usize) -> Vec<Vec<usize>> {
    if parts == 1 { return vec![vec![total]]; }
    let mut r = vec![];
    for i in 0..=total { for mut rest in compositions(total - i, parts - 1) { let mut v = vec![i]; v.append(&mut rest); r.push(v); } }
    r
}
fn run(s: &[u8], parts: usize) {
    for lens in compositions(s.len(), parts) {
        for nbytes in [4usize, 8, 12, 16] {
            let max_digits = 9 * 8 * nbytes / 32 - 2 - 1;
            let mut chunks: Vec<&[u8]> = vec![]; let mut p = 0;
            for l in &lens { chunks.push(&s[p..p + l]); p += l; }
            let r = panic::catch_unwind(|| { let mut d = vec![0u8; nbytes + 2]; let m = encode(&mut d, max_digits, chunks); (d, m.0) });
            let ls: Vec<String> = lens.iter().map(|l| l.to_string()).collect();
            match r {
                Ok((d, m)) => { let mut v: u128 = 0; for i in (0..16).rev() { v = v * 256 + (*d.get(i).unwrap_or(&0) as u128); } println!("{} {} {} {}", ls.join(","), nbytes, v, m) }
                Err(_) => println!("{} {} PANIC", ls.join(","), nbytes),
            }
        }
    }
}
fn main() {
    panic::set_hook(Box::new(|_| {}));
    let s40 = b"9876543210123456987654321012345698765432";
    let s12 = b"123456789012";
    let s7 = b"1234567";
    run(s40, 1); run(s40, 2); run(s40, 3); run(s12, 4); run(s7, 5); run(s7, 1); run(s7, 2); run(s7, 3);
}
RS
} > "$W/h.rs"
rustc -O -A warnings -o "$W/h_rel" "$W/h.rs"
rustc -A warnings -C debug-assertions=on -C overflow-checks=on -o "$W/h_dbg" "$W/h.rs"
"$W/h_rel" > "$W/rel.txt"; "$W/h_dbg" > "$W/dbg.txt"
(cd .. && lake env lean difftest/gen.lean) > "$W/lean.txt"
cmp "$W/rel.txt" "$W/dbg.txt" && cmp "$W/rel.txt" "$W/lean.txt" && echo "IDENTICAL: $(wc -l < "$W/lean.txt") cases, $(grep -c PANIC "$W/lean.txt") panics"
