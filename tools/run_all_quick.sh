#!/bin/bash
# run every quick check in sequence (refreshes evidence/); prints one line per property plus the oracle-sensitivity figures
cd "$(dirname "$0")/.."
rc=0
for i in $(seq -w 1 18); do
  p=C$i
  ./check $p quick | grep -E "^(OK|VIOLATION|KNOWN-FINDING)" | cut -c1-160 || true
  [ "${PIPESTATUS[0]}" = "0" ] || rc=1
  python3 - "$p" <<'EOF'
import json, sys
e = json.load(open(f"evidence/{sys.argv[1]}.json"))
s = e["coverage"].get("oracle_sensitivity", {})
print("   sensitivity", s.get("perturbed"), s.get("rejected"), {k: (v["perturbed"], v["rejected"]) for k, v in s.get("by_kind", {}).items()})
for l in s.get("accepted_samples", [])[:3]:
    print("     accepted:", l[:200])
EOF
done
exit $rc
