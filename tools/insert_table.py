#!/usr/bin/env python3
"""Replace the detection matrix of DESIGN.md §12.3 by the output of tools/collect_seeded.py (stdin)."""
import re, sys, os
d = os.path.join(os.path.dirname(os.path.dirname(os.path.abspath(__file__))), "DESIGN.md")
s = open(d).read()
t = sys.stdin.read().strip()
s = re.sub(r"<!-- SEEDED-TABLE-BEGIN -->.*?<!-- SEEDED-TABLE-END -->", lambda m: "<!-- SEEDED-TABLE-BEGIN -->\n" + t + "\n<!-- SEEDED-TABLE-END -->", s, flags=re.S)
open(d, "w").write(s)
