#!/bin/bash
# usage: run_one.sh <patch.diff> <name> <prop> <tier>   -- one check against one seeded change, in a scratch worktree
patch=$1; name=$2; prop=$3; tier=${4:-quick}
cd /verif
rm -rf /tmp/mt1/$name; mkdir -p /tmp/mt1/$name/out
git -C /repo worktree prune
git -C /repo worktree add --detach /tmp/mt1/$name/wt HEAD >/dev/null 2>&1
git -C /tmp/mt1/$name/wt apply $patch || { echo "PATCH FAILED"; exit 2; }
VERIF_REPO=/tmp/mt1/$name/wt VERIF_OUT=/tmp/mt1/$name/out ./check $prop $tier 2>&1 | tail -2
rp=/tmp/mt1/$name/out/replays/$prop-$tier-1.txt
[ -f $rp ] && head -8 $rp | cut -c1-300
git -C /repo worktree remove --force /tmp/mt1/$name/wt
rm -rf /tmp/mt1/$name
