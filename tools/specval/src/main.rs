//! Validation of the Lean specification against IBM decNumber (crate `dec`), which shares nothing with decstr or with
//! `Decstr.Spec`.  Prints request/answer lines in the harness's line protocol with **decNumber's** answers in the place of the
//! implementation's; the Lean driver's verdict on every line must be `OK`:
//!   `format bW <bytes> => ok <text decNumber prints> 1`      — Spec.decode of every bit pattern = decNumber's reading of it
//!   `parse_str bW <text> => ok:<bytes decNumber encodes> <text it prints>`  — Spec.encodeFin/encodeInf/encodeNan = decNumber's bytes
//! usage: specval <count> <seed>
use dec::{Context, Decimal128, Decimal32, Decimal64};

struct Rng(u64);
impl Rng {
    fn next(&mut self) -> u64 {
        self.0 = self.0.wrapping_add(0x9E3779B97F4A7C15);
        let mut z = self.0;
        z = (z ^ (z >> 30)).wrapping_mul(0xBF58476D1CE4E5B9);
        z = (z ^ (z >> 27)).wrapping_mul(0x94D049BB133111EB);
        z ^ (z >> 31)
    }
    fn below(&mut self, n: u64) -> u64 {
        self.next() % n
    }
}

fn hex(b: &[u8]) -> String {
    b.iter().map(|x| format!("{:02x}", x)).collect()
}

/// decNumber writes a NaN payload as `NaN123`; the crate's grammar writes `NaN(123)`: same token, same digits
fn regrammar(t: &str) -> String {
    let low = t.to_ascii_lowercase();
    if let Some(i) = low.find("nan") {
        let (head, digits) = t.split_at(i + 3);
        if !digits.is_empty() && digits.bytes().all(|b| b.is_ascii_digit()) {
            return format!("{}({})", head, digits);
        }
    }
    t.to_string()
}

macro_rules! width {
    ($name:literal, $ty:ty, $n:literal, $p:literal, $qmin:literal, $qmax:literal, $rng:expr, $count:expr) => {{
        let rng: &mut Rng = $rng;
        // 1. every kind of bit pattern: random bytes, and every top half-word over a random body
        let mut pats: Vec<[u8; $n]> = vec![];
        for _ in 0..$count {
            let mut b = [0u8; $n];
            for x in b.iter_mut() {
                *x = rng.next() as u8;
            }
            pats.push(b);
        }
        for top in 0..=0xffffu32 {
            if top % 7 != (rng.next() % 7) as u32 && $n > 4 {
                continue;
            }
            let mut b = [0u8; $n];
            for x in b.iter_mut() {
                *x = rng.next() as u8;
            }
            b[$n - 1] = (top >> 8) as u8;
            b[$n - 2] = top as u8;
            pats.push(b);
        }
        for b in pats {
            let d = <$ty>::from_le_bytes(b);
            let t = regrammar(&d.to_string());
            println!("format {} {} => ok {} 1", $name, hex(&b), hex(t.as_bytes()));
        }
        // 2. numerals that fit exactly, every spelling decNumber reads; decNumber's bytes
        for i in 0..$count {
            let d = 1 + rng.below($p) as usize;
            let mut digits: String = (0..d).map(|_| (b'0' + rng.below(10) as u8) as char).collect();
            if i % 5 == 0 {
                digits = "9".repeat(d);
            }
            let q: i64 = match i % 4 {
                0 => $qmin + rng.below(($qmax - $qmin + 1) as u64) as i64,
                1 => $qmin + rng.below(4) as i64,
                2 => $qmax - rng.below(4) as i64,
                _ => -(rng.below(40) as i64),
            };
            let frac = rng.below(d as u64 + 1) as usize;
            let x = q + frac as i64;
            let sign = ["", "-", "+"][rng.below(3) as usize];
            let mant = if frac == 0 || frac == d { digits.clone() } else { format!("{}.{}", &digits[..d - frac], &digits[d - frac..]) };
            let x = if frac == d { q } else { x };
            let text = format!("{}{}{}{}", sign, mant, ["e", "E"][rng.below(2) as usize], x);
            let mut cx = Context::<$ty>::default();
            let Ok(v) = cx.parse(text.as_str()) else { continue };
            let st = cx.status();
            if st.inexact() || st.rounded() || st.clamped() || st.any() {
                continue; // decNumber rounded or clamped: not a numeral that fits exactly
            }
            let t = regrammar(&v.to_string());
            println!("parse_str {} {} => ok:{} {}", $name, hex(text.as_bytes()), hex(&v.to_le_bytes()), hex(t.as_bytes()));
        }
        for text in ["inf", "-Infinity", "+INF", "NaN", "-nan", "sNaN", "-snan"] {
            let mut cx = Context::<$ty>::default();
            let Ok(v) = cx.parse(text) else { continue };
            let t = regrammar(&v.to_string());
            println!("parse_str {} {} => ok:{} {}", $name, hex(text.as_bytes()), hex(&v.to_le_bytes()), hex(t.as_bytes()));
        }
    }};
}

fn main() {
    let a: Vec<String> = std::env::args().collect();
    let count: usize = a.get(1).and_then(|s| s.parse().ok()).unwrap_or(20000);
    let seed: u64 = a.get(2).and_then(|s| s.parse().ok()).unwrap_or(1);
    let mut rng = Rng(seed);
    width!("b32", Decimal32, 4, 7, -101i64, 90i64, &mut rng, count);
    width!("b64", Decimal64, 8, 16, -398i64, 369i64, &mut rng, count);
    width!("b128", Decimal128, 16, 34, -6176i64, 6111i64, &mut rng, count);
}
