#!/usr/bin/env python3
"""Confirm and evaluate seeded changes (DESIGN §10).

  tools/eval_mutants.py <src-dir> <name> [--checks C01,C02,...] [--keep]

<src-dir> holds patch.diff and demo.rs written by an independent sub-agent.  In a scratch git worktree of /repo
(outside /repo and /verif) this script confirms that the change (a) applies and compiles, (b) passes the unedited test
suite with and without `arbitrary-precision`, (c) makes the demonstration fail, which passes without the change; then it
runs the checks against the changed tree (VERIF_REPO override) and records which of them report a violation.
Results: /verif/seeded/<name>/{patch.diff, demo.rs, notes.md, meta.json}.  The worktree and its build output are removed.
"""
import json, os, re, shutil, subprocess, sys, time

VERIF = os.path.dirname(os.path.dirname(os.path.abspath(__file__)))
ENV = dict(os.environ, CARGO_NET_OFFLINE="true")
ALL = [f"C{i:02d}" for i in range(1, 19)]


def sh(cmd, cwd=None, timeout=3600):
    r = subprocess.run(cmd, cwd=cwd, shell=isinstance(cmd, str), env=ENV, stdout=subprocess.PIPE, stderr=subprocess.STDOUT, text=True, timeout=timeout)
    return r.returncode, r.stdout


def tests_pass(wt, features):
    rc, out = sh(["cargo", "test", "--offline", "--lib"] + features, cwd=wt)
    m = re.findall(r"test result: (\w+)\. (\d+) passed; (\d+) failed", out)
    return rc == 0 and m and all(x[0] == "ok" for x in m), (m[0] if m else out[-500:])


def demo_result(wt, features):
    rc, out = sh(["cargo", "test", "--offline", "--test", "seeded_demo"] + features, cwd=wt)
    m = re.findall(r"test result: (\w+)\. (\d+) passed; (\d+) failed", out)
    compiled = "error[" not in out and "could not compile" not in out
    return rc == 0, compiled, (m[-1] if m else out[-800:])


def main():
    src, name = sys.argv[1], sys.argv[2]
    checks = ALL
    if "--checks" in sys.argv:
        checks = sys.argv[sys.argv.index("--checks") + 1].split(",")
    wt = f"/tmp/mut/{name}/wt"
    out = f"/tmp/mut/{name}/out"
    shutil.rmtree(f"/tmp/mut/{name}", ignore_errors=True)
    os.makedirs(out, exist_ok=True)
    sh(["git", "-C", "/repo", "worktree", "prune"])
    rc, o = sh(["git", "-C", "/repo", "worktree", "add", "--detach", wt, "HEAD"])
    assert rc == 0, o
    meta = {"name": name, "source": src, "confirmed": False, "at_commit": sh(["git", "-C", "/repo", "rev-parse", "--short", "HEAD"])[1].strip()}
    try:
        patch = os.path.join(src, "patch.diff")
        demo = open(os.path.join(src, "demo.rs")).read()
        needs_big = "arbitrary-precision" in demo or "BigBitstring" in demo
        feats = ["--features", "arbitrary-precision"] if needs_big else []
        rc, o = sh(["git", "apply", patch], cwd=wt)
        meta["applies"] = rc == 0
        if rc != 0:
            meta["why"] = o[-500:]
            return finish(meta, name, src)
        if "--own-only" in sys.argv:
            # final re-verification with the final checks: the change was confirmed when its round was evaluated;
            # only the check of the property it breaks is run again
            env = dict(ENV, VERIF_REPO=wt, VERIF_OUT=out)
            own = name[:3]
            t0 = time.time()
            r = subprocess.run([os.path.join(VERIF, "check"), own, "quick"], env=env, stdout=subprocess.PIPE, stderr=subprocess.STDOUT, text=True)
            line = [l for l in r.stdout.splitlines() if l.startswith(("VIOLATION", "OK "))]
            first = ""
            rp = os.path.join(out, "replays", f"{own}-quick-1.txt")
            if r.returncode == 1 and os.path.exists(rp):
                body = [l for l in open(rp) if not l.startswith("#")]
                hdr = [l.strip() for l in open(rp) if l.startswith("#")][2:5]
                first = {"classes": hdr, "example": body[0].strip()[:400] if body else ""}
            meta["own_final"] = {"check": own, "rc": r.returncode, "line": line[-1][:200] if line else r.stdout[-300:], "wall_s": round(time.time() - t0, 1), "first": first}
            os.makedirs("/tmp/mut/results-own", exist_ok=True)
            json.dump(meta, open(f"/tmp/mut/results-own/{name}.json", "w"), indent=1)
            print(name, "own-final", meta["own_final"]["line"][:120])
            return
        ok1, r1 = tests_pass(wt, [])
        ok2, r2 = tests_pass(wt, ["--features", "arbitrary-precision"])
        meta["suite_with_change"] = {"default": r1, "arbitrary-precision": r2, "pass": bool(ok1 and ok2)}
        os.makedirs(os.path.join(wt, "tests"), exist_ok=True)
        open(os.path.join(wt, "tests", "seeded_demo.rs"), "w").write(demo)
        passed, compiled, r = demo_result(wt, feats)
        if passed and compiled:
            # a change that only manifests without debug assertions / overflow checks: try the release profile
            passed, compiled, r = demo_result(wt, feats + ["--release"])
            if not passed:
                feats = feats + ["--release"]
                meta["demo_needs_release_profile"] = True
        meta["demo_with_change"] = {"passed": passed, "compiled": compiled, "result": r}
        sh(["git", "apply", "-R", patch], cwd=wt)
        passed0, compiled0, r0 = demo_result(wt, feats)
        meta["demo_without_change"] = {"passed": passed0, "compiled": compiled0, "result": r0}
        sh(["git", "apply", patch], cwd=wt)
        os.remove(os.path.join(wt, "tests", "seeded_demo.rs"))
        meta["confirmed"] = bool(ok1 and ok2 and compiled and not passed and passed0)
        if not meta["confirmed"]:
            return finish(meta, name, src)
        # run the checks against the changed tree
        env = dict(ENV, VERIF_REPO=wt, VERIF_OUT=out)
        results = {}
        for c in checks:
            t0 = time.time()
            r = subprocess.run([os.path.join(VERIF, "check"), c, "quick"], env=env, stdout=subprocess.PIPE, stderr=subprocess.STDOUT, text=True)
            line = [l for l in r.stdout.splitlines() if l.startswith(("VIOLATION", "OK "))]
            first = ""
            rp = os.path.join(out, "replays", f"{c}-quick-1.txt")
            if r.returncode == 1 and os.path.exists(rp):
                body = [l for l in open(rp) if not l.startswith("#")]
                hdr = [l.strip() for l in open(rp) if l.startswith("#")][2:5]
                first = {"classes": hdr, "example": body[0].strip()[:400] if body else ""}
            results[c] = {"rc": r.returncode, "line": line[-1][:200] if line else r.stdout[-300:], "wall_s": round(time.time() - t0, 1), "first": first}
        meta["checks"] = results
        meta["detected_by"] = [c for c, v in results.items() if v["rc"] == 1]
        own = name[:3]
        if own in results and results[own]["rc"] == 0 and "--no-thorough" not in sys.argv:
            # the quick tier of the property's own check missed it: try the thorough tier of that check
            t0 = time.time()
            r = subprocess.run([os.path.join(VERIF, "check"), own, "thorough"], env=env, stdout=subprocess.PIPE, stderr=subprocess.STDOUT, text=True)
            line = [l for l in r.stdout.splitlines() if l.startswith(("VIOLATION", "OK "))]
            meta["own_check_thorough"] = {"rc": r.returncode, "line": line[-1][:200] if line else r.stdout[-300:], "wall_s": round(time.time() - t0, 1)}
        return finish(meta, name, src)
    finally:
        sh(["git", "-C", "/repo", "worktree", "remove", "--force", wt])
        shutil.rmtree(f"/tmp/mut/{name}", ignore_errors=True)


def finish(meta, name, src):
    res = "/tmp/mut/results-final" if "--final" in sys.argv else "/tmp/mut/results"
    os.makedirs(res, exist_ok=True)
    json.dump(meta, open(f"{res}/{name}.json", "w"), indent=1)
    print(name, "confirmed" if meta["confirmed"] else "NOT CONFIRMED", "detected_by=", meta.get("detected_by"))


if __name__ == "__main__":
    main()
