#!/bin/bash
# Diagnostic (not a check): which lines of /repo/src do the quick request sets of all 18 properties execute?
# Builds the harness with source-based coverage (nightly toolchain's llvm-tools), runs every plan, prints the per-file
# table and the uncovered lines.  Scratch directory is removed at the end.   usage: tools/coverage.sh [tier=quick]
set -e
tier=${1:-quick}
V=$(cd "$(dirname "$0")/.." && pwd)
S=$(mktemp -d /tmp/cov.XXXXXX)
B=$(dirname "$(rustup which --toolchain nightly rustc)")/../lib/rustlib/x86_64-unknown-linux-gnu/bin
mkdir -p $S/h $S/prof
cp -r $V/harness/src $V/harness/Cargo.toml $V/harness/Cargo.lock $V/harness/.cargo $S/h/
(cd $S/h && RUSTFLAGS="-C instrument-coverage" CARGO_NET_OFFLINE=true cargo +nightly build --offline --quiet --target-dir $S/target)
H=$S/target/debug/harness
for i in $(seq -w 1 18); do
  p=C$i
  ( $H gen $p $tier 1 > $S/$p.req 2>/dev/null; LLVM_PROFILE_FILE=$S/prof/$p-%p.profraw $H run < $S/$p.req > /dev/null 2>&1 ) &
done
wait
$B/llvm-profdata merge -sparse $S/prof/*.profraw -o $S/all.profdata
IGN='(cargo/registry|rustc|harness/src|/tmp/cov|verif_hooks)'
$B/llvm-cov report $H -instr-profile=$S/all.profdata --ignore-filename-regex="$IGN" 2>/dev/null
$B/llvm-cov show $H -instr-profile=$S/all.profdata --ignore-filename-regex="$IGN" --show-line-counts-or-regions=false 2>/dev/null |
python3 -c '
import re, sys
cur = None
for l in sys.stdin:
    m = re.match(r"^(/repo/src/[^:]+):$", l.strip())
    if m: cur = m.group(1); print("==", cur); continue
    m = re.match(r"^\s*(\d+)\|\s*0\|(.*)$", l)
    if m and cur: print(f"  {m.group(1)}: {m.group(2)[:120]}")
'
rm -rf $S
