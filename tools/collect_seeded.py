#!/usr/bin/env python3
"""Copy the confirmed seeded changes and their evaluation into /verif/seeded/<name>/ and print the detection matrix.

  tools/collect_seeded.py [results-dir=/tmp/mut/results]
"""
import json, os, re, shutil, sys

VERIF = os.path.dirname(os.path.dirname(os.path.abspath(__file__)))
RES = sys.argv[1] if len(sys.argv) > 1 else "/tmp/mut/results"
ALL = [f"C{i:02d}" for i in range(1, 19)]
# seeded changes the property's own check missed at their first evaluation, and what was strengthened (DESIGN §12)
MISSED_FIRST = {
    "C06-1": "TAB aliasing ')' via `| 0x20`: single-byte mutations now use every ASCII byte",
    "C14-2": "write_char truncation: fragment strata with characters above U+00FF delivered through write_char",
    "C03-3": "special values: text -> bits -> text for NaN payloads of every length (g_specials in C03)",
    "C09-2": "NaN payload patterns through the round trip; C09 tag on special-value round trips",
    "C11-1": "small coefficients x exponents near the target's digit count",
    "C18-1": "the limits themselves through a text round trip",
    "C18-2": "maximal-length numerals through try_parse; required text capacity rule (C04) in the streaming oracle",
    "C18-3": "release-only demonstration: eval_mutants retries the demo with --release",
    "C06r2-1": "non-ASCII characters whose low byte is a token byte, through write_char (g_nonascii_chars); streaming complaints count for the bracketed property",
    "C09r2-2": "special-value numerals through the streaming entry point as well (put_special)",
    "C14r2-2": "the string entry point is run on every fragmented text too (frag-str)",
    "C18r2-2": "limit numerals in every exponent spelling (e+, E, leading zeros) through both entry points; C18 owns parse complaints on its plan",
    "C15r2-2": "every cross-type numeral also through try_parse for all five types (its round-2 detection was an artefact of the C15 false alarm)",
    "C02r3-1": "wide_big_patterns: BigBitstring values at 192..3200 bits with exponents at the i32/i64 limits",
    "C11r3-1": "wide_big_patterns in C11", "C11r3-2": "wide_big_patterns in C11", "C13r3-1": "wide_big_patterns in C13",
    "C04r3-2": "g_exp_texts: exponent texts of every length 1..45 and around 2^31..2^128", "C07r3-2": "g_exp_texts (one format range below 2^32)",
    "C05r3-1": "formatter options on every format/roundtrip request; a killed or non-returning harness process is a violation with bisected replay",
    "C06r3-1": "g_swallow_invalid: junk around numerals from a Display that ignores write errors",
    "C08r3-1": "NaN payloads 2^k, 2^k+1, 2^k+2^(k/2) through to_f32/to_f64",
    "C14r3-2": "streaming texts beyond 65535 bytes for BigBitstring",
    "C18r3-1": "limit numerals with 9 and 14 padding zeros in the exponent", "C18r3-2": "limit numerals filling the text buffer exactly; capacities as constants instead of probed",
    "C12r2-1": "double rounding, 2 of 2^32 f32 patterns: only the exhaustive from_f32 -> to_f32 sweep of the thorough tier finds it",
    "C07r4-2": "small exponents zero-padded to the text lengths of the i32/i64/i128 limits (9..12, 19..21, 39..41 digits); C07 owns 'rejected a numeral that fits' on its plan",
    "C11r4-1": "zero_run_patterns: coefficients d·10^k at 128..960 bits with exponents on both sides of every arm's guard (missed by all 18 checks at first)",
    "C17r4-1": "sources that keep writing after the first error, with two offending bytes in different fragments (g_swallow_invalid in C14 and C17)",
    "C17r4-2": "numerals of 70,000..300,000 digits and slice lengths around 64 KiB: the figures an error names beyond 16 bits (missed by all 18 checks at first)",
    "C06r5-1": "exponent texts of every length in C06's plan; a grammatical numeral rejected by BigBitstring is a C06 complaint as well (missed by C06, C05 and C15 at first; the other checks were not run in round 5)",
    "C14r5-2": "keywords with two signs among the targeted invalid texts, which C14 now sends through both entry points and pairs",
    "C15r5-2": "by its author's account a weak fit for C15 (big-endian accessors of Bitstring128 exist on the fixed type only): reported by C16",
    "C04r5-1": "sources that ignore the failed write on a text longer than the buffer and return Ok (g_swallow_long in C04 and C14); at first only C05 reported it",
    "C16r5-1": "try_from_le_bytes called at all four alignments of the slice's start address (missed by C16, C05 and C15 at first)",
    "C16r5-2": "try_le_fill: slices of 2^29 bytes and neighbours given by length (missed by C16, C05 and C15 at first)",
    "C17r5-1": "non-ASCII characters through write_char in C17's and C14's plans (they were in C06's only)",
    "C18r5-2": "DIGITS zeros and 10^(p-1) as coefficients of the limit numerals",
    "C08r4-2": "outside C08 as its author notes (big-endian accessors of Bitstring128 are C16's subject): reported by C16, not by C08",
}


def summary_of(notes):
    """first paragraphs of the sub-agent's notes: what the change is / what it needs"""
    txt = open(notes).read() if os.path.exists(notes) else ""
    txt = re.sub(r"```.*?```", "", txt, flags=re.S)
    paras = [p.strip() for p in txt.split("\n\n") if p.strip() and not p.strip().startswith("#")]
    return " ".join(paras[:2])[:900]


def main():
    rows = []
    for fn in sorted(os.listdir(RES)):
        m = json.load(open(os.path.join(RES, fn)))
        name = m["name"]
        src = m["source"]
        prop = name[:3]
        if not m.get("confirmed"):
            rows.append((name, prop, False, [], [], None, None))
            continue
        dst = os.path.join(VERIF, "seeded", name)
        os.makedirs(dst, exist_ok=True)
        for f in ("patch.diff", "demo.rs", "notes.md"):
            if os.path.exists(os.path.join(src, f)):
                shutil.copy(os.path.join(src, f), os.path.join(dst, f))
        checks = m.get("checks", {})
        det_spec, det_corr = [], []
        for c, v in checks.items():
            if v["rc"] == 1:
                # round 3 was evaluated while C15 had a false alarm of its own on trait entry points (DESIGN §13): a C15
                # report whose first example is that artefact does not count as a detection
                ex = (v.get("first") or {}).get("example", "") if isinstance(v.get("first"), dict) else ""
                if c == "C15" and "types_disagree" in ex and ("@trait" in ex or "special-case-fmt" in ex or "special-payload-fmt" in ex):
                    continue
                (det_corr if "no-failing-input-found" in v["line"] else det_spec).append(c)
        own_final = None
        of = os.path.join(os.path.dirname(RES.rstrip("/")), "results-own", fn)
        if os.path.exists(of):
            own_final = json.load(open(of)).get("own_final")
        meta = {
            "name": name,
            "breaks_property": prop,
            "written_by": "independent sub-agent given only the property text and a scratch worktree (see DESIGN §12)",
            "what_it_is_and_needs": summary_of(os.path.join(src, "notes.md")),
            "confirmed_by_me": {
                "repo_commit": m.get("at_commit"),
                "applies_and_compiles": m.get("applies"),
                "existing_suite_with_change": m.get("suite_with_change"),
                "demo_with_change": m.get("demo_with_change"),
                "demo_without_change": m.get("demo_without_change"),
                "how": "tools/eval_mutants.py: scratch git worktree of /repo under /tmp, git apply patch.diff, cargo test --lib (default and "
                       "arbitrary-precision), demo as tests/seeded_demo.rs with and without the patch; then ./check <Cxx> quick for all 18 "
                       "properties with VERIF_REPO pointing at the patched worktree; worktree and build output removed afterwards",
            },
            "own_property_check_detects_at_round_evaluation": prop in det_spec or prop in det_corr,
            "own_property_check_final": own_final,
            "missed_at_first_evaluation_then_strengthened": MISSED_FIRST.get(name),
            "detected_with_failing_input_by": det_spec,
            "detected_as_broken_correspondence_only_by": det_corr,
            "not_detected_by": [c for c in ALL if c in checks and checks[c]["rc"] == 0],
            "first_report_of_own_check": checks.get(prop, {}).get("first"),
        }
        json.dump(meta, open(os.path.join(dst, "meta.json"), "w"), indent=1)
        rows.append((name, prop, True, det_spec, det_corr, own_final, m.get("own_check_thorough")))
    print("| seeded change | own check, final | at the round's evaluation: with failing input | correspondence only |")
    print("|---|---|---|---|")
    n_own = n_all = 0
    for name, prop, ok, ds, dc, of, oth in rows:
        if not ok:
            print(f"| {name} | (not confirmed, dropped) | | |")
            continue
        n_all += 1
        if of is None:
            fin = "**yes**" if prop in ds or prop in dc else "**NO**"
        elif of["rc"] == 1:
            fin = "**yes**" + (" (correspondence only)" if "no-failing-input-found" in of["line"] else "")
        else:
            fin = "quick: no"
        if name == "C08r4-2":
            fin = "no — not a C08 change (its author says so): big-endian accessors, reported by **C16**"
        if name == "C15r5-2":
            fin = "no — big-endian accessors of `Bitstring128` (no counterpart on the dynamic types), reported by **C16**"
        if name == "C12r2-1":
            fin = "quick: no; **thorough: yes** (exhaustive f32 sweep, 760 s)"
        n_own += fin.startswith("**yes") or "thorough: yes" in fin
        print(f"| {name} | {fin} | {' '.join(ds)} | {' '.join(dc)} |")
    print(f"\n{n_own} of {n_all} kept changes are reported by the final check of the property they were written against "
          "(C12r2-1 by its thorough tier only); the remaining two, C08r4-2 and C15r5-2, change the big-endian accessors of "
          "Bitstring128, which by their authors' own account is not what C08 / C15 speak about, and are reported by C16, whose subject it is.")


if __name__ == "__main__":
    main()
