#!/usr/bin/env python3
"""Run all 18 quick checks against a behaviour-preserving change (DESIGN §12.3): every check must stay green.

  tools/eval_harmless.py <dir-with-patch.diff> <name>

Scratch git worktree of /repo under /tmp, patch applied, unedited suite run (both feature sets), then ./check <Cxx> quick
for every property with VERIF_REPO pointing at the worktree.  Result: /tmp/mut/harmless/<name>.json.  Worktree removed.
"""
import json, os, re, shutil, subprocess, sys, time

VERIF = os.path.dirname(os.path.dirname(os.path.abspath(__file__)))
ENV = dict(os.environ, CARGO_NET_OFFLINE="true")
ALL = [f"C{i:02d}" for i in range(1, 19)]


def sh(cmd, cwd=None):
    r = subprocess.run(cmd, cwd=cwd, env=ENV, stdout=subprocess.PIPE, stderr=subprocess.STDOUT, text=True)
    return r.returncode, r.stdout


def main():
    src, name = sys.argv[1], sys.argv[2]
    base = f"/tmp/mut/h-{name}"
    wt, out = base + "/wt", base + "/out"
    shutil.rmtree(base, ignore_errors=True)
    os.makedirs(out)
    sh(["git", "-C", "/repo", "worktree", "prune"])
    rc, o = sh(["git", "-C", "/repo", "worktree", "add", "--detach", wt, "HEAD"])
    assert rc == 0, o
    meta = {"name": name, "source": src}
    try:
        rc, o = sh(["git", "apply", os.path.join(src, "patch.diff")], cwd=wt)
        meta["applies"] = rc == 0
        if rc != 0:
            meta["why"] = o[-400:]
            return
        suites = {}
        for feats in ([], ["--features", "arbitrary-precision"]):
            rc, o = sh(["cargo", "test", "--offline", "--lib"] + feats, cwd=wt)
            m = re.findall(r"test result: (\w+)\. (\d+) passed; (\d+) failed", o)
            suites[" ".join(feats) or "default"] = m[0] if m else o[-300:]
        meta["suite"] = suites
        env = dict(ENV, VERIF_REPO=wt, VERIF_OUT=out)
        res = {}
        for c in ALL:
            t0 = time.time()
            r = subprocess.run([os.path.join(VERIF, "check"), c, "quick"], env=env, stdout=subprocess.PIPE, stderr=subprocess.STDOUT, text=True)
            line = [l for l in r.stdout.splitlines() if l.startswith(("VIOLATION", "OK "))]
            first = ""
            rp = os.path.join(out, "replays", f"{c}-quick-1.txt")
            if r.returncode != 0 and os.path.exists(rp):
                first = [l.strip()[:300] for l in open(rp)][2:8]
            res[c] = {"rc": r.returncode, "line": line[-1][:200] if line else r.stdout[-300:], "wall_s": round(time.time() - t0, 1), "first": first}
        meta["checks"] = res
        meta["alarms"] = [c for c, v in res.items() if v["rc"] != 0]
        try:
            ev = json.load(open(os.path.join(out, "evidence", "C05.json")))
            sv = ev["coverage"].get("site_validation") or {}
            meta["site_validation"] = sv.get("headline") or sv.get("why")
        except Exception:
            pass
    finally:
        os.makedirs("/tmp/mut/harmless", exist_ok=True)
        json.dump(meta, open(f"/tmp/mut/harmless/{name}.json", "w"), indent=1)
        print(name, "alarms=", meta.get("alarms"), meta.get("site_validation", "")[:120])
        sh(["git", "-C", "/repo", "worktree", "remove", "--force", wt])
        shutil.rmtree(base, ignore_errors=True)


if __name__ == "__main__":
    main()
