#![allow(unexpected_cfgs)]
mod gen;
#[cfg(decstr_verif)]
mod hooks;
mod ops;
mod sweep;
mod util;

use gen::*;
use std::io::{BufRead, BufWriter, Read, Write};
use util::*;

fn plan(prop: &str, o: &mut Out) {
    let all: Vec<&str> = TYPES.to_vec();
    let ints: Vec<&str> = INT_TYPES.to_vec();
    match prop {
        "C01" => {
            g_declets(o);
            g_msd_exp(o);
            let c = o.q(4000, 200000);
            g_numerals(o, "parse_str", &all, c);
            let c = o.q(400, 20000);
            g_spellings(o, &all, c);
            let c = o.q(100, 3000);
            g_long(o, c);
            let c = o.q(70, 200);
            g_big_edges(o, c);
            g_exp_texts(o, &["dyn", "big", "b64"]);
        }
        "C02" | "C03" => {
            let op = if prop == "C02" { "format" } else { "roundtrip" };
            let pats = all_patterns(o, true);
            g_on_patterns(o, op, &pats, &[]);
            let lb = last_byte_patterns(o);
            g_on_patterns(o, op, &lb, &[]);
            let wide = wide_big_patterns(o);
            g_on_patterns(o, op, &wide, &[]);
            if prop == "C03" {
                let c = o.q(3000, 100000);
                g_numerals(o, "parse_str", &all, c);
                // text -> bits -> text for the special values too (payloads of every length)
                g_specials(o);
            }
        }
        "C04" => {
            g_maxlen_fmt(o, &all);
            g_edge_fill(o, &all);
            g_swallow_long(o, &all);
            g_long_valid(o, &all);
            g_grid(o, &all);
            g_exp_limits(o);
            g_exp_texts(o, &all);
            let c = o.q(3000, 100000);
            g_numerals(o, "parse_str", &all, c);
            let c = o.q(100, 2000);
            g_long(o, c);
        }
        "C05" => {
            // a cross-section of every operation, plus the malformed stream
            g_strings(o, "dyn", 3, true);
            g_strings(o, "big", 2, true);
            g_mutations(o, &["b32", "dyn", "big"]);
            g_targeted_invalid(o);
            g_specials(o);
            g_exp_limits(o);
            let c = o.q(1500, 50000);
            g_numerals(o, "parse_str", &all, c);
            let c = o.q(50, 1000);
            g_long(o, c);
            g_big_edges(o, 30);
            let mut pats = last_byte_patterns(o);
            pats.extend(top_halfword_patterns(o, 1, if o.thorough { 1 } else { 5 }));
            pats.extend(cohort_patterns(o));
            for n in [2usize, 3, 4, 5, 6, 9] {
                pats.extend(layout_patterns(o, n));
                pats.extend(code_point_patterns(o, n).into_iter().step_by(13));
            }
            let texts = g_to_float_texts(o);
            pats.extend(texts_to_patterns(&texts));
            g_on_patterns(o, "roundtrip", &pats, &[]);
            g_on_patterns(o, "classify", &pats, &[]);
            g_on_patterns(o, "to_float", &pats, &["f32", "f64"]);
            g_on_patterns(o, "to_int", &pats, &["i8", "u8", "i32", "u64", "i128", "u128"]);
            g_from_int(o);
            g_from_float(o, &all);
            g_bytes(o);
            g_consts(o);
            g_edge_fill(o, &all);
            g_frag(o, &["b32", "dyn", "big"]);
        }
        "C06" => {
            let l = o.q(4, 5);
            g_strings(o, "dyn", l, false);
            g_strings(o, "dyn", 3, true);
            g_strings(o, "big", l - 1, true);
            for ty in ["b32", "b64", "b128"] {
                g_strings(o, ty, 3, true);
            }
            g_mutations(o, &all);
            g_targeted_invalid(o);
            g_nonascii_chars(o, &["b32", "dyn", "big"]);
            g_long_valid(o, &all);
            g_swallow_invalid(o, &all);
            // `D` is one or more digits: exponent texts of every length (BigBitstring must accept them all, the bounded types
            // may refuse them for their value only)
            g_exp_texts(o, &["b32", "big"]);
        }
        "C07" => {
            g_exp_texts(o, &["dyn", "big"]);
            g_grid(o, &["dyn", "big"]);
            let c = o.q(80, 200);
            g_big_edges(o, c);
            let c = o.q(3000, 200000);
            g_numerals(o, "parse_str", &["dyn", "big"], c);
            g_specials(o);
            // "every accepted numeral, integer or float": the width chosen for integers and floats as well
            g_from_int_types(o, &["dyn", "big"]);
            g_from_float(o, &["dyn", "big"]);
        }
        "C08" => {
            let pats = last_byte_patterns(o);
            g_on_patterns(o, "classify", &pats, &[]);
            g_on_patterns(o, "to_float", &pats, &["f64"]);
            g_on_patterns(o, "to_int", &pats, &["i32"]);
            // the conversions' branch must follow the class for every payload too (the payload becomes float bits)
            let np = nan_payload_patterns(o);
            g_on_patterns(o, "classify", &np, &[]);
            g_on_patterns(o, "to_float", &np, &["f32", "f64"]);
            let c = o.q(2000, 100000);
            let mut more = vec![];
            for n in [1usize, 2, 4, 5, 7] {
                more.extend((0..c / 5).map(|_| o.rng.bytes(4 * n)));
            }
            g_on_patterns(o, "classify", &more, &[]);
        }
        "C09" => {
            g_specials(o);
            let np = nan_payload_patterns(o);
            g_on_patterns(o, "roundtrip", &np, &[]);
            let lb: Vec<Vec<u8>> = last_byte_patterns(o).into_iter().filter(|p| p[p.len() - 1] & 0x78 == 0x78).collect();
            g_on_patterns(o, "roundtrip", &lb, &[]);
        }
        "C10" => g_from_int(o),
        "C11" => {
            let mut pats = top_halfword_patterns(o, 1, if o.thorough { 1 } else { 3 });
            pats.extend(cohort_patterns(o));
            pats.extend(last_byte_patterns(o).into_iter().step_by(3));
            for n in [2usize, 4, 5] {
                pats.extend(top_halfword_patterns(o, n, if o.thorough { 7 } else { 257 }));
            }
            pats.extend(wide_big_patterns(o));
            pats.extend(zero_run_patterns(o));
            g_on_patterns(o, "to_int", &pats, &ints);
        }
        "C12" => g_from_float(o, &all),
        "C13" => {
            let texts = g_to_float_texts(o);
            let mut pats = texts_to_patterns(&texts);
            pats.extend(top_halfword_patterns(o, 1, if o.thorough { 1 } else { 3 }));
            pats.extend(last_byte_patterns(o).into_iter().step_by(2));
            for n in [2usize, 4, 5, 6] {
                pats.extend(layout_patterns(o, n));
                pats.extend(top_halfword_patterns(o, n, if o.thorough { 17 } else { 509 }));
            }
            pats.extend(wide_big_patterns(o));
            pats.extend(zero_run_patterns(o));
            pats.extend(nan_payload_patterns(o));
            g_on_patterns(o, "to_float", &pats, &["f32", "f64"]);
        }
        "C14" => {
            g_frag(o, &all);
            g_maxlen_fmt(o, &all);
            g_edge_fill(o, &all);
            g_long_valid(o, &all);
            g_swallow_invalid(o, &all);
            g_swallow_long(o, &all);
            g_nonascii_chars(o, &["b32", "dyn", "big"]);
            // invalid texts through both entry points: they must agree on rejection too
            g_targeted_invalid(o);
        }
        "C15" => {
            // the same inputs through every type able to take them; compare.py groups the answers
            let c = o.q(3000, 100000);
            for _ in 0..c {
                let ty = *o.rng.pick(&TYPES);
                let n = rand_num(&mut o.rng, ty);
                let s = {
                    let mut r = Rng(o.rng.next());
                    gen_spell(&mut r, &n)
                };
                for t in TYPES {
                    o.put(&format!("cross-parse/{}", t), format!("parse_str {} {}", t, ops::hex(s.as_bytes())));
                    // and through the streaming entry point: the text buffers differ per type (borrowed, array, vector)
                    let cap = ops::text_cap(t).map_or("-".to_string(), |c| c.to_string());
                    o.put(&format!("cross-parse-fmt/{}", t), format!("parse_fmt {} {} {} -", t, cap, ops::hex(s.as_bytes())));
                }
            }
            g_specials(o);
            let mut pats = vec![];
            for (n, stride) in [(1usize, 7usize), (2, 31), (3, 61), (4, 31), (5, 31)] {
                let stride = if o.thorough { 1 + stride / 8 } else { stride };
                pats.extend(top_halfword_patterns(o, n, stride));
                pats.extend(layout_patterns(o, n));
                pats.extend(code_point_patterns(o, n).into_iter().step_by(if o.thorough { 1 } else { 5 }));
            }
            pats.extend(cohort_patterns(o));
            pats.extend(last_byte_patterns(o));
            g_on_patterns(o, "format", &pats, &[]);
            g_on_patterns(o, "classify", &pats, &[]);
            g_on_patterns(o, "to_int", &pats, &["i8", "i32", "u64", "i128"]);
            g_on_patterns(o, "to_float", &pats, &["f32", "f64"]);
        }
        "C16" => g_bytes(o),
        "C17" => {
            g_grid(o, &["b32", "b64", "b128", "dyn"]);
            g_exp_limits(o);
            let l = o.q(4, 5);
            g_strings(o, "dyn", l, false);
            g_strings(o, "b32", 3, true);
            g_mutations(o, &["b64", "big"]);
            g_targeted_invalid(o);
            g_long_valid(o, &["b32", "b64", "b128", "dyn"]);
            g_huge_digits(o, &["b32", "b64", "b128", "dyn"]);
            g_swallow_invalid(o, &all);
            // non-ASCII characters through write_char: the byte named is the first byte of their UTF-8 form
            g_nonascii_chars(o, &["b32", "dyn", "big"]);
            g_specials(o);
            g_bytes(o);
            g_conv_errors(o);
            let c = o.q(2000, 50000);
            g_numerals(o, "parse_str", &["b32", "b64", "b128", "dyn"], c);
            // oversize numerals at every width step above capacity
            for ty in ["b32", "b64", "b128", "dyn"] {
                let cap = cap_n(ty).unwrap();
                for n in cap + 1..=cap + 10 {
                    let f = Fmt { n };
                    for d in [f.p() - 8, f.p() - 1, f.p()] {
                        o.put(&format!("oversize-digits/{}", ty), format!("parse_str {} {}", ty, ops::hex("8".repeat(d).as_bytes())));
                    }
                    if n <= 12 {
                        for e in [f.qmin(), f.qmax()] {
                            o.put(&format!("oversize-exp/{}", ty), format!("parse_str {} {}", ty, ops::hex(format!("1e{}", e).as_bytes())));
                            // too many digits *and* an exponent that needs an even wider format than the digits do
                            for d in [Fmt { n: cap + 1 }.p(), Fmt { n: cap + 2 }.p() - 3] {
                                o.put(&format!("oversize-both/{}", ty), format!("parse_str {} {}", ty, ops::hex(format!("{}e{}", "4".repeat(d), e).as_bytes())));
                            }
                        }
                    }
                }
            }
        }
        "C18" => {
            g_consts(o);
            let mut pats = top_halfword_patterns(o, 1, if o.thorough { 1 } else { 3 });
            pats.extend(top_halfword_patterns(o, 2, 61));
            pats.extend(top_halfword_patterns(o, 4, 61));
            g_on_patterns(o, "format", &pats.into_iter().filter(|p| matches!(p.len(), 4 | 8 | 16)).collect::<Vec<_>>(), &[]);
        }
        #[cfg(decstr_verif)]
        "X05" => hooks::g_x05(o),
        _ => panic!("unknown property {}", prop),
    }
}

pub fn gen_spell(rng: &mut Rng, n: &gen::Num) -> String {
    gen::spell_pub(rng, n)
}

fn main() {
    let args: Vec<String> = std::env::args().collect();
    if matches!(args.get(1).map(|s| s.as_str()), Some("run") | Some("one")) {
        std::panic::set_hook(Box::new(|_| {}));
    }
    match args.get(1).map(|s| s.as_str()) {
        // the facts extracted from an error text (diagnostic; DESIGN §13 on reworded messages)
        Some("facts") => {
            let (k, a, b) = ops::err_facts(&args[2..].join(" "));
            println!("{}:{}:{}", k, a, b);
        }
        Some("run") => {
            let mut input = String::new();
            std::io::stdin().read_to_string(&mut input).unwrap();
            let lines: Vec<&str> = input.lines().collect();
            let threads = std::thread::available_parallelism().map(|n| n.get()).unwrap_or(4).min(16);
            let chunk = (lines.len() + threads - 1) / threads.max(1);
            let mut results: Vec<Vec<String>> = vec![];
            if lines.is_empty() {
                return;
            }
            std::thread::scope(|s| {
                let hs: Vec<_> = lines
                    .chunks(chunk.max(1))
                    .map(|c| {
                        s.spawn(move || {
                            c.iter()
                                .map(|l| {
                                    let req = l.rsplit('\t').next().unwrap();
                                    #[cfg(decstr_verif)]
                                    if req.starts_with("x_") {
                                        return hooks::run_line(req);
                                    }
                                    ops::run_line(req)
                                })
                                .collect::<Vec<String>>()
                        })
                    })
                    .collect();
                for h in hs {
                    results.push(h.join().unwrap_or_default());
                }
            });
            // `run --out <file>`: the answers go to a file of their own, so that anything the crate under test prints on
            // stdout cannot shift them against the requests
            let mut w: Box<dyn Write> = match args.iter().position(|a| a == "--out").and_then(|i| args.get(i + 1)) {
                Some(path) => Box::new(BufWriter::new(std::fs::File::create(path).expect("answer file"))),
                None => Box::new(BufWriter::new(std::io::stdout())),
            };
            #[cfg(decstr_verif)]
            hooks::summary(&results);
            for r in results {
                for l in r {
                    writeln!(w, "{}", l).unwrap();
                }
            }
            w.flush().unwrap();
        }
        Some("gen") => {
            let prop = &args[2];
            let thorough = args.get(3).map_or(false, |t| t == "thorough");
            let seed: u64 = args.get(4).and_then(|s| s.parse().ok()).unwrap_or(1);
            let out = std::io::stdout();
            let mut w = BufWriter::new(out.lock());
            let mut o = Out { w: &mut w, thorough, rng: Rng::new(seed) };
            plan(prop, &mut o);
        }
        Some("sweep") => {
            let p = sweep::Plan {
                prop: args[2].clone(),
                thorough: args.get(3).map_or(false, |t| t == "thorough"),
                seed: args.get(4).and_then(|s| s.parse().ok()).unwrap_or(1),
            };
            std::panic::set_hook(Box::new(|_| {}));
            sweep::run(&p);
        }
        Some("caps") => {
            for ty in TYPES {
                println!("{} {} probed={}", ty, ops::text_cap(ty).map_or("-".to_string(), |c| c.to_string()), if ty.to_string() == "big" { "-".to_string() } else { ops::probe_text_cap(ty).map_or("none".to_string(), |c| c.to_string()) });
            }
        }
        Some("one") => {
            // run a single request given on the command line
            let req = args[2..].join(" ");
            #[cfg(decstr_verif)]
            if req.starts_with("x_") {
                println!("{}", hooks::run_line(&req));
                return;
            }
            println!("{}", ops::run_line(&req));
        }
        _ => {
            let _ = std::io::stdin().lock().lines();
            eprintln!("usage: harness run | gen <prop> <tier> <seed> | caps | one <request>");
            std::process::exit(2);
        }
    }
}
