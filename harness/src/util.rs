//! PRNG, format parameters and an independent IEEE 754 decimal encoder used to *build inputs*
//! (bit patterns with chosen sign / digits / exponent).  It is never used as an oracle: every
//! judgement is made by the Lean specification.

use num_bigint::{BigInt, BigUint};
use num_traits::{One, ToPrimitive, Zero};

pub struct Rng(pub u64);

impl Rng {
    pub fn new(seed: u64) -> Self {
        Rng(seed.wrapping_mul(0x9E3779B97F4A7C15) ^ 0xD1B54A32D192ED03)
    }
    pub fn next(&mut self) -> u64 {
        self.0 = self.0.wrapping_add(0x9E3779B97F4A7C15);
        let mut z = self.0;
        z = (z ^ (z >> 30)).wrapping_mul(0xBF58476D1CE4E5B9);
        z = (z ^ (z >> 27)).wrapping_mul(0x94D049BB133111EB);
        z ^ (z >> 31)
    }
    pub fn below(&mut self, n: u64) -> u64 {
        if n == 0 { 0 } else { self.next() % n }
    }
    pub fn range(&mut self, lo: i64, hi: i64) -> i64 {
        lo + self.below((hi - lo + 1) as u64) as i64
    }
    pub fn chance(&mut self, num: u64, den: u64) -> bool {
        self.below(den) < num
    }
    pub fn pick<'a, T>(&mut self, xs: &'a [T]) -> &'a T {
        &xs[self.below(xs.len() as u64) as usize]
    }
    pub fn bytes(&mut self, n: usize) -> Vec<u8> {
        (0..n).map(|_| self.next() as u8).collect()
    }
}

/// IEEE 754-2019 decimal interchange format of 32n bits
#[derive(Clone, Copy)]
pub struct Fmt {
    pub n: usize,
}

impl Fmt {
    pub fn p(&self) -> usize {
        9 * self.n - 2
    }
    pub fn declets(&self) -> usize {
        3 * self.n - 1
    }
    pub fn t(&self) -> usize {
        30 * self.n - 10
    }
    pub fn w(&self) -> usize {
        2 * self.n + 4
    }
    pub fn emax(&self) -> BigInt {
        BigInt::from(3) * (BigInt::one() << (2 * self.n + 3))
    }
    pub fn bias(&self) -> BigInt {
        self.emax() + BigInt::from(self.p()) - 2
    }
    pub fn qmin(&self) -> BigInt {
        -self.bias()
    }
    pub fn qmax(&self) -> BigInt {
        self.emax() - BigInt::from(self.p()) + 1
    }
    pub fn qmin_i(&self) -> i64 {
        self.qmin().to_i64().unwrap()
    }
    pub fn qmax_i(&self) -> i64 {
        self.qmax().to_i64().unwrap()
    }
}

pub fn dpd_encode(v: u32) -> u32 {
    let (d1, d2, d3) = (v / 100, v / 10 % 10, v % 10);
    let hi = |d: u32| d / 8;
    let m = |d: u32| d / 2 % 4;
    let lo = |d: u32| d % 2;
    let mk = |g1: u32, g2: u32, g3: u32| g1 * 128 + g2 * 16 + 8 + g3;
    match (hi(d1), hi(d2), hi(d3)) {
        (0, 0, 0) => d1 * 128 + d2 * 16 + d3,
        (0, 0, _) => mk(d1, d2, lo(d3)),
        (0, _, 0) => mk(d1, 2 * m(d3) + lo(d2), 2 + lo(d3)),
        (0, _, _) => mk(d1, 4 + lo(d2), 6 + lo(d3)),
        (_, 0, 0) => mk(2 * m(d3) + lo(d1), d2, 4 + lo(d3)),
        (_, 0, _) => mk(2 * m(d2) + lo(d1), 2 + lo(d2), 6 + lo(d3)),
        (_, _, 0) => mk(2 * m(d3) + lo(d1), lo(d2), 6 + lo(d3)),
        (_, _, _) => mk(lo(d1), 6 + lo(d2), 6 + lo(d3)),
    }
}

pub fn to_le(v: &BigUint, len: usize) -> Vec<u8> {
    let mut b = v.to_bytes_le();
    b.resize(len, 0);
    b
}

/// canonical pattern of (-1)^neg * digits * 10^q in the 32n-bit format; digits.len() <= p, q in range
pub fn enc_fin(f: Fmt, neg: bool, digits: &[u8], q: &BigInt) -> Vec<u8> {
    let p = f.p();
    let mut ds = vec![0u8; p - digits.len()];
    ds.extend(digits.iter().map(|d| d - b'0'));
    let msd = ds[0] as u32;
    let mut t = BigUint::zero();
    for j in 0..f.declets() {
        // declet j (least significant first) = digits p-3j-3 .. p-3j-1
        let i = p - 3 * j - 3;
        let v = ds[i] as u32 * 100 + ds[i + 1] as u32 * 10 + ds[i + 2] as u32;
        t |= BigUint::from(dpd_encode(v)) << (10 * j);
    }
    let e = (q + f.bias()).to_biguint().expect("exponent below range");
    let w = f.w();
    let etop = (&e >> w).to_u32().unwrap();
    let elow = &e & ((BigUint::one() << w) - 1u32);
    let g5 = if msd < 8 { etop * 8 + msd } else { 24 + etop * 2 + (msd - 8) };
    let mut v = t | (((BigUint::from(g5) << w) | elow) << f.t());
    if neg {
        v |= BigUint::one() << (32 * f.n - 1);
    }
    to_le(&v, 4 * f.n)
}

pub fn hexs(b: &[u8]) -> String {
    crate::ops::hex(b)
}

pub fn type_n(ty: &str) -> Option<usize> {
    match ty {
        "b32" => Some(1),
        "b64" => Some(2),
        "b128" => Some(4),
        _ => None,
    }
}

pub fn cap_n(ty: &str) -> Option<usize> {
    match ty {
        "b32" => Some(1),
        "b64" => Some(2),
        "b128" => Some(4),
        "dyn" => Some(5),
        _ => None,
    }
}

pub const TYPES: [&str; 5] = ["b32", "b64", "b128", "dyn", "big"];

/// types able to hold a buffer of 4n bytes
pub fn holders(n: usize) -> Vec<&'static str> {
    TYPES
        .iter()
        .copied()
        .filter(|t| match type_n(t) {
            Some(k) => k == n,
            None => cap_n(t).map_or(true, |c| n <= c),
        })
        .collect()
}
