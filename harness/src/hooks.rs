//! Work package HOOKS: requests `x_<name> <args…>` call crate-internal functions through `decstr::verif_hooks`
//! (compiled only with `--cfg decstr_verif`), on in-contract and out-of-contract arguments, under catch_unwind.
//! The answer is one token: `ok:<canonical rendering>` | `panic` | `skip` (request not shapeable for that type).
//! `Decstr/Model/ExecHooks.lean` renders the checked model's answer to the same request the same way.

use crate::ops::{err_facts, hex, unhex};
use decstr::verif_hooks as vh;
use std::panic::{catch_unwind, AssertUnwindSafe};

pub fn profile() -> &'static str {
    if cfg!(debug_assertions) { "dbg" } else { "rel" }
}

fn bit(s: &str) -> Option<bool> {
    match s {
        "0" => Some(false),
        "1" => Some(true),
        _ => None,
    }
}

fn b(v: bool) -> &'static str {
    if v { "1" } else { "0" }
}

/// comma separated hex strings; `-` is an empty chunk
fn chunks(s: &str) -> Option<Vec<Vec<u8>>> {
    s.split(',').map(unhex).collect()
}

/// `s-e`
fn range(s: &str) -> Option<(usize, usize)> {
    let (a, z) = s.split_once('-')?;
    Some((a.parse().ok()?, z.parse().ok()?))
}

fn opt_range(s: &str) -> Option<Option<(usize, usize)>> {
    if s == "_" { Some(None) } else { range(s).map(Some) }
}

fn err3(text: &str) -> String {
    let (k, a, c) = err_facts(text);
    format!("err:{}:{}:{}", k, a, c)
}

fn perr(text: &str) -> String {
    let (k, a, _) = err_facts(text);
    format!("perr:{}:{}", k, a)
}

fn bytes_or_err(r: Result<Vec<u8>, String>) -> String {
    match r {
        Ok(v) => hex(&v),
        Err(e) => err3(&e),
    }
}

fn sig_text(s: &(bool, (usize, usize), Option<(usize, usize)>)) -> String {
    format!(
        "{},{}-{},{}",
        b(s.0),
        s.1 .0,
        s.1 .1,
        match s.2 {
            Some((a, z)) => format!("{}-{}", a, z),
            None => "_".into(),
        }
    )
}

fn parsed_text(p: &vh::Parsed) -> String {
    match p.kind {
        "finite" => format!(
            "fin/{}/{}/{}",
            hex(&p.ascii),
            p.significand.as_ref().map_or("_".to_string(), sig_text),
            match p.exponent {
                Some((neg, (a, z))) => format!("{},{}-{}", b(neg), a, z),
                None => "_".into(),
            }
        ),
        "infinity" => format!("inf/{}", b(p.negative)),
        _ => format!(
            "nan/{}/{}/{}/{}",
            hex(&p.ascii),
            b(p.negative),
            b(p.signaling),
            p.significand.as_ref().map_or("_".to_string(), sig_text)
        ),
    }
}

/// `.` = no operation; otherwise comma separated: `a<hex|->` parse_ascii, `d<hex byte>` checked digit, `n`, `e`
fn parse_ops(s: &str, store: &mut Vec<Vec<u8>>) -> Option<Vec<(char, usize)>> {
    let mut ops = vec![];
    if s == "." {
        return Some(ops);
    }
    for t in s.split(',') {
        let c = t.chars().next()?;
        match c {
            'a' => {
                store.push(unhex(&t[1..])?);
                ops.push(('a', store.len() - 1));
            }
            'd' => {
                let v = unhex(&t[1..])?;
                if v.len() != 1 {
                    return None;
                }
                store.push(v);
                ops.push(('d', store.len() - 1));
            }
            'n' | 'e' if t.len() == 1 => ops.push((c, 0)),
            _ => return None,
        }
    }
    Some(ops)
}

fn with_ops<R>(s: &str, f: impl FnOnce(&[vh::Op]) -> Option<R>) -> Option<R> {
    let mut store = vec![];
    let idx = parse_ops(s, &mut store)?;
    let ops: Vec<vh::Op> = idx
        .iter()
        .map(|(c, i)| match c {
            'a' => vh::Op::ParseAscii(&store[*i]),
            'd' => vh::Op::CheckedPushSignificandDigit(store[*i][0]),
            'n' => vh::Op::CheckedSignificandIsNegative,
            _ => vh::Op::CheckedBeginExponent,
        })
        .collect();
    f(&ops)
}

fn parse_answer(r: Result<vh::Parsed, String>) -> String {
    match r {
        Ok(p) => parsed_text(&p),
        Err(e) => perr(&e),
    }
}

fn conv_answer(r: Result<Result<Vec<u8>, String>, String>) -> String {
    match r {
        Ok(r) => bytes_or_err(r),
        Err(e) => perr(&e),
    }
}

fn opt_str(v: Option<String>) -> String {
    match v {
        Some(s) => format!("some:{}", s),
        None => "none".into(),
    }
}

/// the rendering after `ok:`; `None` = malformed request or not shapeable (`skip`)
fn answer(req: &[&str]) -> Option<String> {
    Some(match req {
        ["x_enc_sig", ty, bytes, cs] => {
            let cs = chunks(cs)?;
            let refs: Vec<&[u8]> = cs.iter().map(|c| c.as_slice()).collect();
            let (out, msd) = vh::encode_significand_trailing_digits(ty, &unhex(bytes)?, &refs)?;
            format!("{}:{}", hex(&out), msd)
        }
        ["x_enc_sig_rep", ty, bytes, digit] => {
            let (out, msd) = vh::encode_significand_trailing_digits_repeat(ty, &unhex(bytes)?, digit.parse().ok()?)?;
            format!("{}:{}", hex(&out), msd)
        }
        ["x_dec_declets", ty, bytes] => hex(&vh::decode_significand_trailing_declets(ty, &unhex(bytes)?)?),
        ["x_precision", bits] => vh::precision_digits(bits.parse().ok()?).to_string(),
        ["x_msd", "ascii", v] => vh::most_significant_digit_from_ascii(v.parse().ok()?).to_string(),
        ["x_msd", "bcd", v] => vh::most_significant_digit_from_bcd(v.parse().ok()?).to_string(),
        ["x_enc_comb", ty, bytes, neg, exp, msd] => hex(&vh::encode_combination_finite(
            ty,
            &unhex(bytes)?,
            bit(neg)?,
            exp.parse().ok()?,
            msd.parse().ok()?,
        )?),
        ["x_dec_comb", ty, bytes] => {
            let (e, msd) = vh::decode_combination_finite(ty, &unhex(bytes)?)?;
            format!("{}:{}", e, msd)
        }
        ["x_enc_inf", ty, bytes, neg] => hex(&vh::encode_combination_infinity(ty, &unhex(bytes)?, bit(neg)?)?),
        ["x_enc_nan", ty, bytes, neg, sig] => hex(&vh::encode_combination_nan(ty, &unhex(bytes)?, bit(neg)?, bit(sig)?)?),
        ["x_is", ty, bytes, which] => b(vh::classify(ty, &unhex(bytes)?, which)?).to_string(),
        ["x_emax", ety, bits] => vh::emax(ety, bits.parse().ok()?)?,
        ["x_emin", ety, bits] => vh::emin(ety, bits.parse().ok()?)?,
        ["x_bias", ety, bits, prec] => vh::bias(ety, bits.parse().ok()?, prec.parse().ok()?)?,
        ["x_add_bias", ty, bytes, exp] => vh::add_bias(ty, &unhex(bytes)?, exp.parse().ok()?)?,
        ["x_sub_bias", ty, bytes, exp] => vh::sub_bias(ty, &unhex(bytes)?, exp.parse().ok()?)?,
        ["x_emax_of", ty, bytes, min] => vh::emax_of(ty, &unhex(bytes)?, bit(min)?)?,
        ["x_geom", ty, bytes, which] => vh::geometry(ty, &unhex(bytes)?, which)?.to_string(),
        ["x_min_width_digits", d] => vh::minimum_storage_width_bits_for_precision_digits(d.parse().ok()?).to_string(),
        ["x_min_width_exp", ety, e] => vh::minimum_storage_width_bits_for_integer_exponent(ety, e.parse().ok()?)?.to_string(),
        ["x_with_precision", ty, d, exp] => {
            let e = if *exp == "_" { None } else { Some(exp.parse().ok()?) };
            bytes_or_err(vh::try_with_at_least_precision(ty, d.parse().ok()?, e)?)
        }
        ["x_with_bytes", ty, n, exactly] => bytes_or_err(vh::try_with_storage_width_bytes(ty, n.parse().ok()?, bit(exactly)?)?),
        ["x_exp_from_ascii", ty, neg, ascii] => match vh::try_exponent_from_ascii(ty, bit(neg)?, &unhex(ascii)?)? {
            Ok(e) => e,
            Err(e) => err3(&e),
        },
        ["x_encode_max", ty, len, neg, min] => hex(&vh::encode_max(ty, len.parse().ok()?, bit(neg)?, bit(min)?)?),
        ["x_int_from_ascii", ity, neg, ascii] => opt_str(vh::integer_try_from_ascii(ity, bit(neg)?, &unhex(ascii)?)?),
        ["x_int_from_le", ety, bytes] => vh::integer_from_le_bytes(ety, &unhex(bytes)?)?,
        ["x_float_from_ascii", fty, neg, ascii, exp] => {
            let w = if *fty == "f32" { 8 } else { 16 };
            opt_str(
                vh::float_try_finite_from_ascii(fty, bit(neg)?, &unhex(ascii)?, exp.parse().ok()?)?
                    .map(|bits| format!("{:0w$x}", bits, w = w)),
            )
        }
        ["x_parse", parser, buf, text, ops] => {
            let text = unhex(text)?;
            with_ops(ops, |ops| vh::parse(parser, buf, &text, ops)).map(parse_answer)?
        }
        ["x_parse_str", parser, text] => {
            let text = String::from_utf8(unhex(text)?).ok()?;
            parse_answer(vh::parse_str(parser, &text)?)
        }
        ["x_parse_conv", ty, parser, buf, text, ops] => {
            let text = unhex(text)?;
            with_ops(ops, |ops| vh::parse_then_decimal_from_parsed(ty, parser, buf, &text, ops)).map(conv_answer)?
        }
        ["x_parse_str_conv", ty, parser, text] => {
            let text = String::from_utf8(unhex(text)?).ok()?;
            conv_answer(vh::parse_str_then_decimal_from_parsed(ty, parser, &text)?)
        }
        ["x_raw_fin", ty, text, neg, sig, point, exp] => {
            let exp = if *exp == "_" {
                None
            } else {
                let (n, r) = exp.split_once(',')?;
                Some((bit(n)?, range(r)?))
            };
            bytes_or_err(vh::decimal_from_parsed_finite(ty, &unhex(text)?, bit(neg)?, range(sig)?, opt_range(point)?, exp)?)
        }
        ["x_raw_nan", ty, text, neg, sig, payload] => {
            bytes_or_err(vh::decimal_from_parsed_nan(ty, &unhex(text)?, bit(neg)?, bit(sig)?, opt_range(payload)?)?)
        }
        ["x_raw_inf", ty, neg] => bytes_or_err(vh::decimal_from_parsed_infinity(ty, bit(neg)?)?),
        ["x_to_fmt", ty, bytes] => match vh::decimal_to_fmt(ty, &unhex(bytes)?)? {
            Ok(s) => hex(s.as_bytes()),
            Err(()) => "fmterr".into(),
        },
        ["x_to_int", ty, bytes, ity] => opt_str(vh::decimal_to_int(ty, &unhex(bytes)?, ity)?.ok()),
        ["x_to_float", ty, bytes, fty] => {
            let w = if *fty == "f32" { 8 } else { 16 };
            opt_str(vh::decimal_to_binary_float(ty, &unhex(bytes)?, fty)?.ok().map(|bits| format!("{:0w$x}", bits, w = w)))
        }
        ["x_from_int", ty, ity, v] => bytes_or_err(vh::decimal_from_int(ty, ity, v)?),
        ["x_from_float", ty, fty, bits, _ryu] => {
            bytes_or_err(vh::decimal_from_binary_float(ty, fty, u64::from_str_radix(bits, 16).ok()?)?)
        }
        _ => return None,
    })
}

/// `x_<name> <dbg|rel> <args…> => <answer>`
pub fn run_line(line: &str) -> String {
    let req: Vec<&str> = line.split_whitespace().collect();
    let ans = match catch_unwind(AssertUnwindSafe(|| answer(&req))) {
        Ok(Some(s)) => format!("ok:{}", s),
        Ok(None) => "skip".to_string(),
        Err(_) => "panic".to_string(),
    };
    format!("{} {} {} => {}", req.first().copied().unwrap_or(""), profile(), req.get(1..).unwrap_or(&[]).join(" "), ans)
}

/// per function: requests, panics, skips in this binary's profile (stderr)
pub fn summary(results: &[Vec<String>]) {
    let mut m: std::collections::BTreeMap<String, [usize; 3]> = Default::default();
    for l in results.iter().flatten() {
        if !l.starts_with("x_") {
            continue;
        }
        let name = l.split(' ').next().unwrap_or("");
        let e = m.entry(name.to_string()).or_insert([0; 3]);
        e[0] += 1;
        if l.ends_with("=> panic") {
            e[1] += 1;
        } else if l.ends_with("=> skip") {
            e[2] += 1;
        }
    }
    for (k, v) in m {
        eprintln!("X05 {} {} requests={} panics={} skips={}", profile(), k, v[0], v[1], v[2]);
    }
}

// ---------------------------------------------------------------------------------------------------------------
// generator `gen X05 <tier> <seed>`: for every hooked function in-contract arguments (stratum `<name>/in`: derived from
// valid values — these must never panic) and out-of-contract arguments (stratum `<name>/out`), roughly half/half.

use crate::gen::Out;
use crate::util::{enc_fin, Fmt, Rng};
use num_bigint::BigInt;

const FIX_ODD: [usize; 17] = [0, 1, 2, 3, 5, 6, 7, 12, 20, 24, 44, 48, 52, 56, 60, 64, 76];
const INTS: [&str; 10] = ["i8", "i16", "i32", "i64", "i128", "u8", "u16", "u32", "u64", "u128"];
const TYS: [&str; 5] = ["b32", "b64", "b128", "dyn", "big"];
const BELOW: &[u8] = b"/ +-.\x00\x2e";
const ABOVE: &[u8] = b":aeE_\x7f\x80\xff";

macro_rules! put {
    ($g:expr, $name:expr, $out:expr, $($fmt:tt)*) => {{
        let line = format!($($fmt)*);
        $g.put($name, $out, line)
    }};
}

struct G<'a, 'b> {
    o: &'a mut Out<'b>,
    counts: std::collections::BTreeMap<String, [usize; 2]>,
}

impl<'a, 'b> G<'a, 'b> {
    fn put(&mut self, name: &str, out: bool, args: String) {
        self.counts.entry(name.to_string()).or_insert([0; 2])[out as usize] += 1;
        self.o.put(&format!("{}/{}", name, if out { "out" } else { "in" }), format!("{} {}", name, args));
    }
    fn r(&mut self) -> &mut Rng {
        &mut self.o.rng
    }
    fn n(&self, quick: usize) -> usize {
        if self.o.thorough { quick * 10 } else { quick }
    }
}

/// a buffer type and a length it legitimately has
fn in_buf(r: &mut Rng) -> (String, usize) {
    match r.below(8) {
        0 => ("b32".into(), 4),
        1 => ("b64".into(), 8),
        2 => ("b128".into(), 16),
        3 | 4 => ("dyn".into(), 4 * r.range(1, 5) as usize),
        5 | 6 => ("big".into(), 4 * r.range(1, 8) as usize),
        _ => ("big".into(), 4 * r.range(9, 16) as usize),
    }
}

/// a buffer type and a length the public API never gives it: not a positive multiple of four, or an `i32` exponent
/// at a width above 160 bits (`fix<N>`)
fn out_buf(r: &mut Rng) -> (String, usize) {
    match r.below(7) {
        0 | 1 => {
            let l = *r.pick(&[0usize, 1, 2, 3, 5, 6, 7, 9, 10, 11, 13, 14, 15, 17, 18, 19]);
            ("dyn".into(), l)
        }
        2 | 3 => {
            let l = *r.pick(&[0usize, 1, 2, 3, 5, 6, 7, 9, 10, 11, 13, 14, 15, 17, 18, 19, 21, 22, 23, 25, 27, 30, 33, 41, 50, 63]);
            ("big".into(), l)
        }
        _ => {
            let n = *r.pick(&FIX_ODD);
            (format!("fix{}", n), n)
        }
    }
}

fn any_buf(r: &mut Rng, out: bool) -> (String, usize) {
    if out { out_buf(r) } else { in_buf(r) }
}

fn digits(r: &mut Rng, d: usize) -> Vec<u8> {
    let style = r.below(6);
    (0..d)
        .map(|_| match style {
            0 => b'9',
            1 => b'0',
            2 => *r.pick(b"89"),
            _ => b'0' + r.below(10) as u8,
        })
        .collect()
}

fn rand_q(r: &mut Rng, f: Fmt, d: usize) -> i64 {
    // an exponent such that d digits fit: qmin..=qmax (both inclusive: any coefficient of at most p digits)
    let _ = d;
    match r.below(5) {
        0 => f.qmin_i(),
        1 => f.qmax_i(),
        2 => 0,
        _ => r.range(f.qmin_i(), f.qmax_i()),
    }
}

/// a bit pattern of `len` bytes
fn pattern(r: &mut Rng, len: usize) -> Vec<u8> {
    let mut v = match r.below(7) {
        0 => vec![0u8; len],
        1 => vec![0xffu8; len],
        2 | 3 => r.bytes(len),
        4 if len % 4 == 0 && len > 0 && len <= 64 => {
            let f = Fmt { n: len / 4 };
            let d = r.range(1, f.p() as i64) as usize;
            let ds = digits(r, d);
            let q = rand_q(r, f, d);
            enc_fin(f, r.chance(1, 2), &ds, &BigInt::from(q))
        }
        5 => {
            let mut v = vec![0u8; len];
            for _ in 0..r.below(4) {
                if len > 0 {
                    let i = r.below(len as u64) as usize;
                    v[i] |= 1 << r.below(8);
                }
            }
            v
        }
        _ => r.bytes(len),
    };
    if len > 0 && r.chance(1, 3) {
        let last = *r.pick(&[0x78u8, 0xf8, 0x7c, 0xfc, 0x7e, 0xfe, 0x7a, 0x00, 0x80, 0x20, 0x40, 0x5f, 0x60, 0x77, 0x64, 0x6c, 0x74]);
        v[len - 1] = last | (r.next() as u8 & 0x03);
    }
    v
}

fn chunk_list(cs: &[Vec<u8>]) -> String {
    cs.iter().map(|c| hex(c)).collect::<Vec<_>>().join(",")
}

fn bad_byte(r: &mut Rng) -> u8 {
    if r.chance(1, 2) { *r.pick(BELOW) } else { *r.pick(ABOVE) }
}

fn exp_text(r: &mut Rng, ty: &str, len: usize, out: bool) -> String {
    let n = (len / 4).max(1).min(16);
    let f = Fmt { n };
    if !out {
        let q = rand_q(r, f, 1);
        return if ty == "big" { q.to_string() } else { q.clamp(i32::MIN as i64, i32::MAX as i64).to_string() };
    }
    let big = ty == "big";
    let cl = |v: i64| -> String { if big { v.to_string() } else { v.clamp(i32::MIN as i64, i32::MAX as i64).to_string() } };
    match r.below(8) {
        0 => cl(f.qmin_i() - 1),
        1 => cl(f.qmax_i() + f.p() as i64),
        2 => cl(f.qmin_i() - r.range(2, 5000)),
        3 => cl(f.qmax_i() + r.range(1, 5000)),
        4 => if big { "-170141183460469231731687303715884105728".into() } else { i32::MIN.to_string() },
        5 => if big { "170141183460469231731687303715884105727".into() } else { i32::MAX.to_string() },
        6 => if big { (1i128 << r.range(31, 100)).to_string() } else { (i32::MAX as i64 - r.range(0, 30000)).to_string() },
        _ => if big { (-(1i128 << r.range(31, 100))).to_string() } else { (i32::MIN as i64 + r.range(0, 30000)).to_string() },
    }
}

// --- text -----------------------------------------------------------------------------------------------------

fn numeral(r: &mut Rng) -> String {
    let mut s = String::new();
    match r.below(4) {
        0 => s.push('-'),
        1 => s.push('+'),
        _ => {}
    }
    match r.below(12) {
        0 => s.push_str(*r.pick(&["inf", "Infinity", "INF", "infinity"])),
        1 => s.push_str(*r.pick(&["nan", "NaN", "snan", "sNaN", "NAN"])),
        2 => {
            s.push_str(*r.pick(&["nan", "snan", "NaN"]));
            s.push('(');
            let d = r.range(1, 8) as usize;
            s.push_str(std::str::from_utf8(&digits(r, d)).unwrap());
            s.push(')');
        }
        _ => {
            let d = r.range(1, 9) as usize;
            s.push_str(std::str::from_utf8(&digits(r, d)).unwrap());
            if r.chance(1, 2) {
                s.push('.');
                let d = r.range(1, 6) as usize;
                s.push_str(std::str::from_utf8(&digits(r, d)).unwrap());
            }
            if r.chance(1, 2) {
                s.push(*r.pick(&['e', 'E']));
                match r.below(3) {
                    0 => s.push('-'),
                    1 => s.push('+'),
                    _ => {}
                }
                s.push_str(&r.range(0, 99).to_string());
            }
        }
    }
    s
}

const EDGE_TEXTS: [&str; 44] = [
    "", "-", "+", ".", "e", "e5", "1e", "1.e+", ".123", "-.5", "+.5e3", "1.", "1.e5", "..", "1..2", ".e5", "-e5", "1e-", "1e+", "1e--5",
    "--1", "+-1", "1-", "1.-5", "0", "00", "0.0", "1e99999999999", "1e-2147483648", "1e2147483647", "1.5e-2147483648", "9e2147483648",
    "nan(", "nan()", "nan(1)2", "sna", "infinit", "infinityx", "+-inf", "--nan", "n", "s", "i", "snan(12345678901234567890123456789012345)",
];

fn mutate(r: &mut Rng, s: &str) -> Vec<u8> {
    let mut v = s.as_bytes().to_vec();
    const M: &[u8] = b"0159+-.eEiInNfFtTyYsSaA()xX _,\x00\x7f\x80\xff/:";
    for _ in 0..r.range(1, 2) {
        match r.below(4) {
            0 if !v.is_empty() => {
                let i = r.below(v.len() as u64) as usize;
                v[i] = *r.pick(M);
            }
            1 => {
                let i = r.below(v.len() as u64 + 1) as usize;
                v.insert(i, *r.pick(M));
            }
            2 if !v.is_empty() => {
                let i = r.below(v.len() as u64) as usize;
                v.remove(i);
            }
            _ => {
                let k = r.below(v.len() as u64 + 1) as usize;
                v.truncate(k);
            }
        }
    }
    v
}

/// split into 1..=4 fragments (possibly empty ones)
fn fragment(r: &mut Rng, t: &[u8]) -> Vec<Vec<u8>> {
    let k = r.below(4) as usize;
    let mut cuts: Vec<usize> = (0..k).map(|_| r.below(t.len() as u64 + 1) as usize).collect();
    cuts.sort();
    let mut out = vec![];
    let mut prev = 0;
    for c in cuts {
        out.push(t[prev..c].to_vec());
        prev = c;
    }
    out.push(t[prev..].to_vec());
    out
}

fn ops_text(frs: &[Vec<u8>]) -> String {
    if frs.is_empty() {
        return ".".into();
    }
    frs.iter().map(|f| format!("a{}", hex(f))).collect::<Vec<_>>().join(",")
}

fn is_ascii(t: &[u8]) -> bool {
    t.iter().all(|b| *b < 0x80)
}

pub fn g_x05(o: &mut Out) {
    let mut g = G { o, counts: Default::default() };

    // ---- significand.rs --------------------------------------------------------------------------------------
    for i in 0..g.n(6000) {
        let out = i % 2 == 1;
        if !out {
            // zeroed buffer of a real width, d <= p digits in one or two non-empty chunks
            let (ty, len) = in_buf(g.r());
            let p = Fmt { n: len / 4 }.p();
            let d = match g.r().below(6) {
                0 => p,
                1 => p - 1,
                2 => 1,
                3 => 2.min(p),
                _ => g.r().range(1, p as i64) as usize,
            };
            let ds = digits(g.r(), d);
            let cs = if d >= 2 && g.r().chance(1, 2) {
                let k = g.r().range(1, d as i64 - 1) as usize;
                vec![ds[..k].to_vec(), ds[k..].to_vec()]
            } else {
                vec![ds]
            };
            put!(g, "x_enc_sig", false, "{} {} {}", ty, hex(&vec![0; len]), chunk_list(&cs));
        } else {
            let odd = g.r().chance(1, 2);
            let (ty, len) = any_buf(g.r(), odd);
            let p = if len >= 1 { (9 * 8 * len / 32).saturating_sub(2) } else { 0 };
            let d = match g.r().below(6) {
                0 => p + g.r().range(1, 8) as usize, // too many digits
                1 => 0,
                2 => p,
                _ => g.r().range(0, (p + 3) as i64) as usize,
            };
            let mut ds = digits(g.r(), d);
            if g.r().chance(1, 2) && !ds.is_empty() {
                for _ in 0..g.r().range(1, 2) {
                    let i = g.r().below(ds.len() as u64) as usize;
                    ds[i] = bad_byte(g.r());
                }
            }
            let nch = g.r().range(1, 3) as usize;
            let mut cuts: Vec<usize> = (0..nch - 1).map(|_| g.r().below(ds.len() as u64 + 1) as usize).collect();
            cuts.sort();
            let mut cs = vec![];
            let mut prev = 0;
            for c in cuts {
                cs.push(ds[prev..c].to_vec());
                prev = c;
            }
            cs.push(ds[prev..].to_vec());
            let bytes = if g.r().chance(1, 3) { g.r().bytes(len) } else { vec![0; len] };
            put!(g, "x_enc_sig", true, "{} {} {}", ty, hex(&bytes), chunk_list(&cs));
        }
    }
    for i in 0..g.n(1500) {
        let out = i % 2 == 1;
        if !out {
            let (ty, len) = in_buf(g.r());
            let dg = b'0' + g.r().below(10) as u8;
            put!(g, "x_enc_sig_rep", false, "{} {} {}", ty, hex(&vec![0; len]), dg);
        } else {
            let odd = g.r().chance(2, 3);
            let (ty, len) = any_buf(g.r(), odd);
            let dg = match g.r().below(3) {
                0 => b'0' + g.r().below(10) as u8,
                1 => bad_byte(g.r()),
                _ => g.r().next() as u8,
            };
            let bytes = if g.r().chance(1, 3) { g.r().bytes(len) } else { vec![0; len] };
            put!(g, "x_enc_sig_rep", true, "{} {} {}", ty, hex(&bytes), dg);
        }
    }
    for i in 0..g.n(4000) {
        let out = i % 2 == 1;
        let (ty, len) = any_buf(g.r(), out);
        let pat = pattern(g.r(), len);
        put!(g, "x_dec_declets", out, "{} {}", ty, hex(&pat));
    }
    for n in 1..=32usize {
        put!(g, "x_precision", false, "{}", 32 * n);
    }
    for bits in 0..=40usize {
        if bits % 32 != 0 || bits == 0 {
            put!(g, "x_precision", true, "{}", bits);
        }
    }
    for v in 0..=255u32 {
        let inc = (48..=57).contains(&v);
        put!(g, "x_msd", !inc, "ascii {}", v);
        put!(g, "x_msd", v > 9, "bcd {}", v);
    }

    // ---- combination.rs --------------------------------------------------------------------------------------
    for i in 0..g.n(8000) {
        let out = i % 2 == 1;
        if !out {
            let (ty, len) = in_buf(g.r());
            let f = Fmt { n: len / 4 };
            // the trailing digits already written, the combination bytes still zero
            let bytes = if g.r().chance(1, 2) {
                let d = g.r().range(1, f.p() as i64 - 1) as usize;
                let ds = digits(g.r(), d);
                let mut v = enc_fin(f, false, &ds, &f.qmin());
                // clear everything above the trailing significand
                let t = f.t();
                for (k, x) in v.iter_mut().enumerate() {
                    if 8 * k >= t {
                        *x = 0;
                    } else if 8 * k + 8 > t {
                        *x &= (1u16 << (t - 8 * k)) as u8 - 1;
                    }
                }
                v
            } else {
                vec![0; len]
            };
            let q = rand_q(g.r(), f, 1);
            let msd = g.r().below(10);
            put!(g, "x_enc_comb", false, "{} {} {} {} {}", ty, hex(&bytes), g.r().below(2), q, msd);
        } else {
            let odd = g.r().chance(1, 2);
            let (ty, len) = any_buf(g.r(), odd);
            let bad_exp = !odd || g.r().chance(1, 2);
            let e = exp_text(g.r(), &ty, len, bad_exp);
            let msd = if g.r().chance(1, 3) { g.r().below(256) } else { g.r().below(10) };
            let bytes = if g.r().chance(1, 4) { g.r().bytes(len) } else { vec![0; len] };
            put!(g, "x_enc_comb", true, "{} {} {} {} {}", ty, hex(&bytes), g.r().below(2), e, msd);
        }
    }
    for i in 0..g.n(6000) {
        let out = i % 2 == 1;
        let (ty, len) = any_buf(g.r(), out);
        let pat = pattern(g.r(), len);
        put!(g, "x_dec_comb", out, "{} {}", ty, hex(&pat));
    }
    for i in 0..g.n(800) {
        let out = i % 2 == 1;
        let (ty, len) = any_buf(g.r(), out);
        let pat = if g.r().chance(1, 2) { vec![0; len] } else { pattern(g.r(), len) };
        if g.r().chance(1, 2) {
            put!(g, "x_enc_inf", out, "{} {} {}", ty, hex(&pat), g.r().below(2));
        } else {
            put!(g, "x_enc_nan", out, "{} {} {} {}", ty, hex(&pat), g.r().below(2), g.r().below(2));
        }
    }
    for i in 0..g.n(3000) {
        let out = i % 2 == 1;
        let (ty, len) = any_buf(g.r(), out);
        let pat = pattern(g.r(), len);
        let which = *g.r().pick(&["finite", "infinite", "nan", "quiet_nan", "signaling_nan", "sign_negative"]);
        put!(g, "x_is", out, "{} {} {}", ty, hex(&pat), which);
    }

    // ---- exponent.rs / buf.rs --------------------------------------------------------------------------------
    for ety in ["i32", "big"] {
        for n in 1..=40usize {
            // in contract: the widths whose exponents the type can hold (i32: up to 160 bits in the crate)
            let inc = ety == "big" || n <= 5;
            put!(g, "x_emax", !inc, "{} {}", ety, 32 * n);
            put!(g, "x_emin", !inc, "{} {}", ety, 32 * n);
            put!(g, "x_bias", !inc, "{} {} {}", ety, 32 * n, 9 * n - 2);
        }
        for bits in [0usize, 1, 7, 8, 15, 16, 24, 31, 33, 100, 416, 431, 432, 433, 447, 448, 449, 463, 464, 480, 512, 1000, 4096] {
            put!(g, "x_emax", true, "{} {}", ety, bits);
            put!(g, "x_emin", true, "{} {}", ety, bits);
            for prec in [0usize, 1, 7, 1000, 2147483647, 2147483000] {
                put!(g, "x_bias", true, "{} {} {}", ety, bits, prec);
            }
        }
    }
    for i in 0..g.n(3000) {
        let out = i % 2 == 1;
        let odd = out && g.r().chance(1, 2);
        let (ty, len) = any_buf(g.r(), odd);
        let bad = out && (!odd || g.r().chance(1, 2));
        let e = exp_text(g.r(), &ty, len, bad);
        let name = if g.r().chance(1, 2) { "x_add_bias" } else { "x_sub_bias" };
        // for sub_bias the in-contract argument is a biased exponent: 0 ..= qmax + bias
        let e = if name == "x_sub_bias" && !out {
            let f = Fmt { n: len / 4 };
            g.r().range(0, f.qmax_i() - f.qmin_i()).to_string()
        } else {
            e
        };
        put!(g, name, out, "{} {} {}", ty, hex(&vec![0; len]), e);
    }
    for i in 0..g.n(400) {
        let out = i % 2 == 1;
        let (ty, len) = any_buf(g.r(), out);
        put!(g, "x_emax_of", out, "{} {} {}", ty, hex(&vec![0; len]), g.r().below(2));
    }
    for i in 0..g.n(2400) {
        let out = i % 2 == 1;
        let (ty, len) = any_buf(g.r(), out);
        let which = *g.r().pick(&[
            "storage_width_bits",
            "precision_digits",
            "trailing_significand_digits",
            "trailing_significand_width_bits",
            "combination_width_bits",
            "exponent_width_bits",
            "trailing_exponent_width_bits",
        ]);
        put!(g, "x_geom", out, "{} {} {}", ty, hex(&vec![0; len]), which);
    }
    for d in 0..=120usize {
        put!(g, "x_min_width_digits", d == 0, "{}", d);
    }
    for d in [1000usize, 4096, 65535, 1 << 20, 1 << 31, (1 << 31) + 7] {
        put!(g, "x_min_width_digits", false, "{}", d);
    }
    for ety in ["i32", "big"] {
        for e in [
            0i128, 1, -1, 90, 91, -101, -102, 369, 370, -398, -399, 1512, 1513, -1559, -1560, 6111, 6112, -6176, -6177, 24534, 24535, -24617, -24618,
            98304, -98304, 393216, 1 << 20, -(1 << 20), i32::MAX as i128, i32::MIN as i128, i32::MAX as i128 - 1, i32::MIN as i128 + 1,
        ] {
            put!(g, "x_min_width_exp", false, "{} {}", ety, e);
        }
        for _ in 0..g.n(200) {
            let e = if ety == "i32" { g.r().next() as i32 as i128 } else { (g.r().next() as i64 as i128) << g.r().below(60) };
            put!(g, "x_min_width_exp", false, "{} {}", ety, e);
        }
    }
    for k in [40u32, 64, 100, 126] {
        put!(g, "x_min_width_exp", false, "big {}", 1i128 << k);
        put!(g, "x_min_width_exp", false, "big {}", -(1i128 << k));
    }
    for i in 0..g.n(3000) {
        let out = i % 2 == 1;
        let ty = *g.r().pick(&TYS);
        let d = if out && g.r().chance(1, 2) {
            0
        } else {
            match g.r().below(6) {
                0 => g.r().range(1, 7) as usize,
                1 => g.r().range(8, 43) as usize,
                2 => g.r().range(44, 200) as usize,
                3 => *g.r().pick(&[7usize, 8, 16, 17, 25, 26, 34, 35, 43, 44, 52, 53, 61, 62, 70, 71]),
                4 => g.r().range(200, 100000) as usize,
                _ => g.r().range(1, 50) as usize,
            }
        };
        let e = match g.r().below(4) {
            0 => "_".to_string(),
            _ => {
                let l = 4 * g.r().range(1, 8) as usize;
                let bad = g.r().chance(1, 2);
                exp_text(g.r(), ty, l, bad)
            }
        };
        // exponents are legitimate arguments whatever their size: only d = 0 is out of contract
        put!(g, "x_with_precision", d == 0, "{} {} {}", ty, d, e);
    }
    for ty in TYS {
        for n in 0..=30usize {
            for ex in 0..2 {
                put!(g, "x_with_bytes", false, "{} {} {}", ty, n, ex);
            }
        }
    }
    for i in 0..g.n(3000) {
        let out = i % 2 == 1;
        let ty = *g.r().pick(&TYS);
        let d = if out { g.r().range(0, 12) } else { g.r().range(1, 12) } as usize;
        let mut ds = digits(g.r(), d);
        if out && (d == 0 || g.r().chance(3, 4)) && !ds.is_empty() {
            let i = g.r().below(ds.len() as u64) as usize;
            ds[i] = bad_byte(g.r());
        }
        let is_out = ds.is_empty() || ds.iter().any(|b| !b.is_ascii_digit());
        put!(g, "x_exp_from_ascii", is_out, "{} {} {}", ty, g.r().below(2), hex(&ds));
    }
    for i in 0..g.n(1200) {
        let out = i % 2 == 1;
        let (ty, len) = any_buf(g.r(), out);
        put!(g, "x_encode_max", out, "{} {} {} {}", ty, len, g.r().below(2), g.r().below(2));
    }

    // ---- num.rs ----------------------------------------------------------------------------------------------
    for i in 0..g.n(3000) {
        let out = i % 2 == 1;
        let ity = *g.r().pick(&INTS);
        let d = g.r().range(0, 41) as usize;
        let mut ds = digits(g.r(), d);
        if out && !ds.is_empty() {
            let i = g.r().below(ds.len() as u64) as usize;
            ds[i] = bad_byte(g.r());
        }
        let is_out = ds.is_empty() || ds.iter().any(|b| !b.is_ascii_digit());
        put!(g, "x_int_from_ascii", is_out, "{} {} {}", ity, g.r().below(2), hex(&ds));
    }
    for ety in ["i32", "big"] {
        for len in 0..=12usize {
            for _ in 0..g.n(6) {
                let v = pattern(g.r(), len);
                put!(g, "x_int_from_le", ety == "i32" && len > 4, "{} {}", ety, hex(&v));
            }
        }
    }
    for i in 0..g.n(3000) {
        let out = i % 2 == 1;
        let fty = *g.r().pick(&["f32", "f64"]);
        let d = if out { g.r().range(0, 45) } else { g.r().range(1, 17) } as usize;
        let mut ds = digits(g.r(), d);
        if out && g.r().chance(1, 4) && !ds.is_empty() {
            let i = g.r().below(ds.len() as u64) as usize;
            ds[i] = *g.r().pick(b"/:x\xff .e-");
        }
        let e: i128 = match g.r().below(8) {
            0 => 0,
            1 => g.r().range(-400, 400) as i128,
            2 => g.r().range(-30, 30) as i128,
            3 if out => i128::MIN,
            4 if out => i128::MAX,
            5 if out => (g.r().next() as i64 as i128) << g.r().below(60),
            6 => g.r().range(-9999, 9999) as i128,
            _ => g.r().range(-330, 310) as i128,
        };
        put!(g, "x_float_from_ascii", out, "{} {} {} {}", fty, g.r().below(2), hex(&ds), e);
    }

    // ---- text ------------------------------------------------------------------------------------------------
    for i in 0..g.n(12000) {
        let out = i % 2 == 1;
        if !out {
            // a well-formed numeral through the parser that reads it, the whole text borrowed / a large enough array
            let t = numeral(g.r());
            let body = t.trim_start_matches(|c| c == '-' || c == '+');
            let kind = body.chars().next().unwrap().to_ascii_lowercase();
            let parser = match (kind, g.r().below(2)) {
                ('i', 0) => "inf",
                ('n', 0) | ('s', 0) => "nan",
                (c, 0) if c.is_ascii_digit() => "fin",
                _ => "dec",
            };
            let buf = *g.r().pick(&["str", "vec", "a32", "a128", "a25"]);
            // `+` is not stored by the array buffers: `a25` holds every numeral generated here
            let frs = if buf == "str" { vec![t.as_bytes().to_vec()] } else { fragment(g.r(), t.as_bytes()) };
            let frs: Vec<Vec<u8>> = if parser == "dec" || buf == "str" { frs } else { frs };
            let text = if buf == "str" { hex(t.as_bytes()) } else { "-".into() };
            put!(g, "x_parse", false, "{} {} {} {}", parser, buf, text, ops_text(&frs));
        } else {
            let parser = *g.r().pick(&["dec", "dec", "fin", "fin", "nan", "inf"]);
            let base = if g.r().chance(1, 3) { g.r().pick(&EDGE_TEXTS).to_string() } else { numeral(g.r()) };
            let t = if g.r().chance(1, 2) { mutate(g.r(), &base) } else { base.as_bytes().to_vec() };
            let buf = *g.r().pick(&["str", "str", "vec", "a0", "a1", "a2", "a3", "a8", "a25"]);
            let frs = fragment(g.r(), &t);
            let text = if buf == "str" {
                // the borrowed text need not be what is fed
                let other = match g.r().below(5) {
                    0 => base.as_bytes().to_vec(),
                    1 => t[..g.r().below(t.len() as u64 + 1) as usize].to_vec(),
                    2 => vec![],
                    3 => numeral(g.r()).into_bytes(),
                    _ => t.clone(),
                };
                if is_ascii(&other) { hex(&other) } else { hex(base.as_bytes()) }
            } else {
                "-".into()
            };
            let mut ops = ops_text(&frs);
            if parser == "fin" && g.r().chance(1, 2) {
                // the checked operations, as num.rs::parse_ascii uses them
                let mut v = vec![];
                if g.r().chance(1, 2) {
                    v.push("n".to_string());
                }
                for _ in 0..g.r().range(0, 9) {
                    let d = if g.r().chance(1, 8) { bad_byte(g.r()) } else { b'0' + g.r().below(10) as u8 };
                    v.push(format!("d{:02x}", d));
                }
                if g.r().chance(2, 3) {
                    v.push("e".to_string());
                    if g.r().chance(1, 2) {
                        v.push(format!("a{}", hex(g.r().range(-99, 99).to_string().as_bytes())));
                    }
                }
                ops = v.join(",");
                if ops.is_empty() {
                    ops = ".".into();
                }
            }
            put!(g, "x_parse", true, "{} {} {} {}", parser, buf, text, ops);
        }
    }
    for i in 0..g.n(3000) {
        let out = i % 2 == 1;
        let parser = *g.r().pick(&["dec", "fin"]);
        let t = if !out {
            let mut t = numeral(g.r());
            while parser == "fin" && !t.trim_start_matches(|c| c == '-' || c == '+').starts_with(|c: char| c.is_ascii_digit()) {
                t = numeral(g.r());
            }
            t.into_bytes()
        } else {
            let base = if g.r().chance(1, 2) { g.r().pick(&EDGE_TEXTS).to_string() } else { numeral(g.r()) };
            let m = mutate(g.r(), &base);
            if is_ascii(&m) { m } else { base.into_bytes() }
        };
        put!(g, "x_parse_str", out, "{} {}", parser, hex(&t));
    }
    for ty in TYS {
        for parser in ["dec", "fin"] {
            for t in EDGE_TEXTS {
                put!(g, "x_parse_str_conv", true, "{} {} {}", ty, parser, hex(t.as_bytes()));
            }
        }
    }
    for i in 0..g.n(5000) {
        let out = i % 2 == 1;
        let ty = *g.r().pick(&TYS);
        let parser = *g.r().pick(&["dec", "fin"]);
        let t = if !out {
            let mut t = numeral(g.r());
            while parser == "fin" && !t.trim_start_matches(|c| c == '-' || c == '+').starts_with(|c: char| c.is_ascii_digit()) {
                t = numeral(g.r());
            }
            t.into_bytes()
        } else {
            let base = if g.r().chance(1, 2) { g.r().pick(&EDGE_TEXTS).to_string() } else { numeral(g.r()) };
            let m = mutate(g.r(), &base);
            if is_ascii(&m) { m } else { base.into_bytes() }
        };
        put!(g, "x_parse_str_conv", out, "{} {} {}", ty, parser, hex(&t));
    }
    for i in 0..g.n(5000) {
        let out = i % 2 == 1;
        let ty = *g.r().pick(&TYS);
        if !out {
            let t = numeral(g.r());
            let buf = *g.r().pick(&["str", "vec", "a128"]);
            let frs = if buf == "str" { vec![t.as_bytes().to_vec()] } else { fragment(g.r(), t.as_bytes()) };
            let text = if buf == "str" { hex(t.as_bytes()) } else { "-".into() };
            put!(g, "x_parse_conv", false, "{} dec {} {} {}", ty, buf, text, ops_text(&frs));
        } else {
            let parser = *g.r().pick(&["dec", "fin", "fin", "nan", "inf"]);
            let base = if g.r().chance(1, 2) { g.r().pick(&EDGE_TEXTS).to_string() } else { numeral(g.r()) };
            let t = if g.r().chance(1, 2) { mutate(g.r(), &base) } else { base.as_bytes().to_vec() };
            let buf = *g.r().pick(&["str", "vec", "a3", "a8", "a25", "a128"]);
            let frs = fragment(g.r(), &t);
            let text = if buf == "str" {
                let other = if g.r().chance(1, 2) { t.clone() } else { base.as_bytes().to_vec() };
                if is_ascii(&other) { hex(&other) } else { hex(base.as_bytes()) }
            } else {
                "-".into()
            };
            put!(g, "x_parse_conv", true, "{} {} {} {} {}", ty, parser, buf, text, ops_text(&frs));
        }
    }
    // hand-built ParsedDecimal values
    for i in 0..g.n(6000) {
        let out = i % 2 == 1;
        let ty = *g.r().pick(&TYS);
        // text: [-]int[.frac][e[-]exp], ranges as the parsers would report them
        let neg = g.r().chance(1, 3);
        let il = g.r().range(1, 9) as usize;
        let fl = if g.r().chance(1, 2) { g.r().range(1, 6) as usize } else { 0 };
        let el = if g.r().chance(1, 2) { g.r().range(1, 3) as usize } else { 0 };
        let xneg = g.r().chance(1, 2);
        let mut t = vec![];
        if neg {
            t.push(b'-');
        }
        let s0 = t.len();
        t.extend(digits(g.r(), il));
        let mut point = None;
        if fl > 0 {
            point = Some((t.len(), t.len() + 1));
            t.push(b'.');
            t.extend(digits(g.r(), fl));
        }
        let s1 = t.len();
        let mut exp = None;
        if el > 0 {
            t.push(b'e');
            if xneg {
                t.push(b'-');
            }
            let a = t.len();
            t.extend(digits(g.r(), el));
            exp = Some((xneg, (a, t.len())));
        }
        let mut sig = (s0, s1);
        if out {
            let len = t.len();
            let wild = |r: &mut Rng| -> (usize, usize) {
                match r.below(6) {
                    0 => (r.below(len as u64 + 2) as usize, r.below(len as u64 + 2) as usize),
                    1 => (len, len + 1 + r.below(3) as usize),
                    2 => {
                        let a = r.below(len as u64 + 1) as usize;
                        (a, a)
                    }
                    3 => (0, len),
                    4 => (r.below(len as u64 + 1) as usize, 64 + r.below(3) as usize),
                    _ => {
                        let a = r.below(len as u64 + 1) as usize;
                        (a, (a + r.below(4) as usize).min(len))
                    }
                }
            };
            match g.r().below(5) {
                0 => sig = wild(g.r()),
                1 => point = Some(wild(g.r())),
                2 => exp = Some((g.r().chance(1, 2), wild(g.r()))),
                3 => {
                    sig = wild(g.r());
                    point = if g.r().chance(1, 2) { Some(wild(g.r())) } else { None };
                }
                _ => {
                    // ranges kept, text damaged
                    let i = g.r().below(t.len() as u64) as usize;
                    t[i] = bad_byte(g.r());
                }
            }
        }
        let pt = point.map_or("_".to_string(), |(a, z)| format!("{}-{}", a, z));
        let ex = exp.map_or("_".to_string(), |(n, (a, z))| format!("{},{}-{}", b(n), a, z));
        put!(g, "x_raw_fin", out, "{} {} {} {}-{} {} {}", ty, hex(&t), b(neg), sig.0, sig.1, pt, ex);
    }
    for i in 0..g.n(2000) {
        let out = i % 2 == 1;
        let ty = *g.r().pick(&TYS);
        let head = *g.r().pick(&["nan(", "snan(", "-nan(", "NaN("]);
        let pl = g.r().range(1, 40) as usize;
        let mut t = head.as_bytes().to_vec();
        let a = t.len();
        t.extend(digits(g.r(), pl.min(64 - a - 1)));
        let z = t.len();
        t.push(b')');
        let mut payload = if g.r().chance(1, 5) { None } else { Some((a, z)) };
        if out {
            let len = t.len();
            payload = Some(match g.r().below(5) {
                0 => (g.r().below(len as u64 + 2) as usize, g.r().below(len as u64 + 2) as usize),
                1 => (a, len + 1 + g.r().below(3) as usize),
                2 => (0, z),
                3 => (a, len),
                _ => (z, a),
            });
        }
        let pl = payload.map_or("_".to_string(), |(a, z)| format!("{}-{}", a, z));
        put!(g, "x_raw_nan", out, "{} {} {} {} {}", ty, hex(&t), g.r().below(2), g.r().below(2), pl);
    }
    for ty in TYS {
        for neg in 0..2 {
            put!(g, "x_raw_inf", false, "{} {}", ty, neg);
        }
    }

    // ---- convert.rs, convert/*.rs ----------------------------------------------------------------------------
    for i in 0..g.n(12000) {
        let out = i % 2 == 1;
        let (ty, len) = any_buf(g.r(), out);
        let pat = pattern(g.r(), len);
        match g.r().below(3) {
            0 => put!(g, "x_to_fmt", out, "{} {}", ty, hex(&pat)),
            1 => {
                let ity = *g.r().pick(&INTS);
                put!(g, "x_to_int", out, "{} {} {}", ty, hex(&pat), ity)
            }
            _ => {
                let fty = *g.r().pick(&["f32", "f64"]);
                put!(g, "x_to_float", out, "{} {} {}", ty, hex(&pat), fty)
            }
        }
    }
    for _ in 0..g.n(1500) {
        let ty = *g.r().pick(&TYS);
        let ity = *g.r().pick(&INTS);
        let bits: u32 = ity[1..].parse().unwrap();
        let signed = ity.starts_with('i');
        let v: String = match g.r().below(5) {
            0 => "0".into(),
            1 => {
                if signed { (-(1i128 << (bits - 1) - 1) - (1i128 << (bits - 1) - 1)).to_string() } else { "0".into() }
            }
            2 => {
                if signed {
                    ((1i128 << (bits - 2)) - 1 + (1i128 << (bits - 2))).to_string()
                } else if bits == 128 {
                    u128::MAX.to_string()
                } else {
                    ((1u128 << bits) - 1).to_string()
                }
            }
            _ => {
                let raw = ((g.r().next() as u128) << 64) | g.r().next() as u128;
                let k = g.r().below(bits as u64) as u32;
                let m = if bits == 128 { raw >> k } else { (raw & ((1u128 << bits) - 1)) >> k.min(bits - 1) };
                if signed {
                    let h = if bits == 128 { (m >> 1) as i128 } else { (m >> 1) as i128 };
                    (if g.r().chance(1, 2) { -h } else { h }).to_string()
                } else {
                    m.to_string()
                }
            }
        };
        // every integer is a legitimate argument
        put!(g, "x_from_int", false, "{} {} {}", ty, ity, v);
    }
    for _ in 0..g.n(1500) {
        let ty = *g.r().pick(&TYS);
        let fty = *g.r().pick(&["f32", "f64"]);
        let bits: u64 = match g.r().below(6) {
            0 => *g.r().pick(&[0u64, 1, 0x7ff0000000000000, 0xfff0000000000000, 0x7ff8000000000000, 0x7fefffffffffffff, 0x8000000000000000, 0x7f800000, 0xff800000, 0x7fc00000, 0x7f7fffff]),
            _ => g.r().next(),
        };
        let bits = if fty == "f32" { bits & 0xffff_ffff } else { bits };
        let w = if fty == "f32" { 8 } else { 16 };
        put!(g, "x_from_float", false, "{} {} {:0w$x} {}", ty, fty, bits, hex(crate::ops::ryu_text(fty, bits).as_bytes()), w = w);
    }

    // ---- probes outside the model's stated conventions (sizes no slice can have) ------------------------------
    for d in [usize::MAX, usize::MAX - 1, usize::MAX / 32, 1usize << 60] {
        put!(g, "x_min_width_digits", true, "{}", d);
    }
    for bits in [usize::MAX, usize::MAX / 9 + 1, 1usize << 62] {
        put!(g, "x_precision", true, "{}", bits);
    }

    let mut tot = [0usize; 2];
    for (k, v) in &g.counts {
        eprintln!("X05 gen {} requests={} in={} out={}", k, v[0] + v[1], v[0], v[1]);
        tot[0] += v[0];
        tot[1] += v[1];
    }
    eprintln!("X05 gen total requests={} in={} out={}", tot[0] + tot[1], tot[0], tot[1]);
}
