//! Runs requests of the line protocol against the real decstr crate, in-process, under catch_unwind.

use std::fmt;
use std::panic::{catch_unwind, AssertUnwindSafe};

#[cfg(feature = "big")]
use decstr::BigBitstring;
use decstr::{Bitstring, Bitstring128, Bitstring32, Bitstring64};

pub fn hex(b: &[u8]) -> String {
    if b.is_empty() {
        return "-".to_string();
    }
    let mut s = String::with_capacity(b.len() * 2);
    for x in b {
        s.push_str(&format!("{:02x}", x));
    }
    s
}

pub fn unhex(s: &str) -> Option<Vec<u8>> {
    if s == "-" {
        return Some(vec![]);
    }
    if s.len() % 2 != 0 {
        return None;
    }
    (0..s.len())
        .step_by(2)
        .map(|i| u8::from_str_radix(&s[i..i + 2], 16).ok())
        .collect()
}

/// facts stated by an error's Display text
pub fn err_facts(text: &str) -> (String, u64, u64) {
    fn num_after<'a>(s: &'a str, pat: &str) -> Option<(u64, &'a str)> {
        let i = s.find(pat)? + pat.len();
        let rest = &s[i..];
        let j = rest.find('`')?;
        Some((rest[..j].parse().ok()?, &rest[j + 1..]))
    }
    if let Some(r) = text.strip_prefix("unexpected character `") {
        let c = r.chars().next().map(|c| c as u32 as u64).unwrap_or(999);
        ("char".into(), c, 0)
    } else if text.starts_with("unexpected end of input") {
        ("end".into(), 0, 0)
    } else if text.starts_with("the buffer is too small") {
        ("buffer".into(), 0, 0)
    } else if text.starts_with("the source produced an error") {
        ("source".into(), 0, 0)
    } else if let Some((max, rest)) = num_after(text, "cannot fit into a decimal of `") {
        if let Some((req, rest2)) = num_after(rest, "the width needed is `") {
            // a trailing note distinguishes a length mismatch from a plain overflow
            if rest2.contains(';') {
                ("size".into(), max, req)
            } else {
                ("overflow".into(), max, req)
            }
        } else {
            ("expoverflow".into(), max, 0)
        }
    } else if text.starts_with("conversion to") {
        ("convert".into(), 0, 0)
    } else {
        err_facts_reworded(text)
    }
}

/// Fallback when the text is not in the wording of the pinned commit: C17 speaks about the figures an error names, not
/// about its sentences.  The kind is taken from keywords, the figures are all the integers in the text; which of two
/// figures is the *needed* width is decided by the clause it stands in ("need", "requir"), else by order.
fn err_facts_reworded(text: &str) -> (String, u64, u64) {
    let low = text.to_ascii_lowercase();
    // integers, each with the clause (split at `;`, `,`, " but ") it stands in
    let mut clauses: Vec<&str> = vec![];
    let mut rest = low.as_str();
    loop {
        let cut = [rest.find(';'), rest.find(','), rest.find(" but ")].iter().flatten().min().copied();
        match cut {
            Some(i) => {
                clauses.push(&rest[..i]);
                rest = &rest[i + 1..];
            }
            None => {
                clauses.push(rest);
                break;
            }
        }
    }
    let mut nums: Vec<(u64, bool)> = vec![]; // (value, stands in a "needed" clause)
    for c in &clauses {
        let needed = c.contains("need") || c.contains("requir");
        let b = c.as_bytes();
        let mut i = 0;
        while i < b.len() {
            if b[i].is_ascii_digit() && (i == 0 || !b[i - 1].is_ascii_alphanumeric()) {
                let j = i + b[i..].iter().take_while(|x| x.is_ascii_digit()).count();
                if j == b.len() || !b[j].is_ascii_alphanumeric() {
                    if let Ok(v) = c[i..j].parse::<u64>() {
                        nums.push((v, needed));
                    }
                }
                i = j;
            } else {
                i += 1;
            }
        }
    }
    // a quoted single character
    // the offending character: the first quoted character after "found" / "got" / "unexpected" / "invalid" / "saw"; failing
    // that, the first quoted character that does not follow "expected" / "wanted" (that one is a hint about what should
    // have come)
    fn first_quoted(t: &str) -> Option<u64> {
        let cs: Vec<char> = t.chars().collect();
        for i in 0..cs.len().saturating_sub(2) {
            if (cs[i] == '`' || cs[i] == '\'' || cs[i] == '"') && cs[i + 2] == cs[i] {
                return Some(cs[i + 1] as u32 as u64);
            }
        }
        None
    }
    let after = ["found", "got", "unexpected", "invalid", "saw"].iter().filter_map(|k| low.find(k)).min();
    // "expect…" as a word of its own, not the tail of "unexpected"
    let hint = {
        let mut best: Option<usize> = low.find("want");
        let mut from = 0;
        while let Some(i) = low[from..].find("expect") {
            let at = from + i;
            if !(at >= 2 && &low[at - 2..at] == "un") {
                best = Some(best.map_or(at, |b| b.min(at)));
                break;
            }
            from = at + 6;
        }
        best
    };
    let quoted: Option<u64> = match (after, hint) {
        // "expected `)` but found `2`": the offending one comes after the later keyword
        (Some(a), Some(h)) if a > h => first_quoted(&text[a.min(text.len())..]),
        (Some(a), Some(h)) => first_quoted(&text[a.min(text.len())..h.min(text.len())]),
        (Some(a), None) => first_quoted(&text[a.min(text.len())..]),
        (None, Some(h)) => first_quoted(&text[..h.min(text.len())]),
        (None, None) => first_quoted(text),
    };
    // a byte written as 0x78
    let hexbyte: Option<u64> = low.find("0x").and_then(|i| {
        let h: String = low[i + 2..].chars().take_while(|c| c.is_ascii_hexdigit()).collect();
        if h.is_empty() || h.len() > 2 { None } else { u64::from_str_radix(&h, 16).ok() }
    });
    let words: Vec<&str> = low.split(|c: char| !c.is_ascii_alphabetic()).collect();
    let has = |ws: &[&str]| words.iter().any(|w| ws.contains(w));
    let syntaxish = has(&["char", "character", "byte", "unexpected", "invalid", "found", "got"]);
    if (low.contains("conversion") || low.contains("convert")) && nums.is_empty() {
        ("convert".into(), 0, 0)
    } else if let (Some(c), true) = (quoted.or(hexbyte), syntaxish) {
        // an offending character is named: that is what the error is about, whatever else the sentence mentions
        ("char".into(), c, 0)
    } else if has(&["end", "ended", "ends", "eof", "incomplete", "truncated", "premature", "empty"]) || low.contains("ran out") {
        ("end".into(), 0, 0)
    } else if low.contains("buffer") {
        ("buffer".into(), 0, 0)
    } else if low.contains("source") {
        ("source".into(), 0, 0)
    } else if nums.len() == 2 {
        let (cap, need) = match (nums[0].1, nums[1].1) {
            (true, false) => (nums[1].0, nums[0].0),
            _ => (nums[0].0, nums[1].0),
        };
        // a length mismatch carries a note about the length or size of what was given
        if low.contains("length") || low.contains("exact") || low.contains("multiple") {
            ("size".into(), cap, need)
        } else {
            ("overflow".into(), cap, need)
        }
    } else if nums.len() == 1 {
        ("expoverflow".into(), nums[0].0, 0)
    } else {
        ("other".into(), 0, 0)
    }
}

fn pans_err(e: &decstr::Error, big: usize) -> String {
    let (k, a, b) = err_facts(&e.to_string());
    format!("err:{}:{}:{}:{}", k, a, b, big)
}

/// A Display whose output is delivered as the given fragments
pub struct Frags<'a> {
    pub frags: &'a [(String, bool)], // (text, use write_char)
    pub fail_at: Option<usize>,
    pub swallow: bool,
}

impl<'a> fmt::Display for Frags<'a> {
    fn fmt(&self, f: &mut fmt::Formatter) -> fmt::Result {
        use fmt::Write;
        for (i, (fr, as_char)) in self.frags.iter().enumerate() {
            if self.fail_at == Some(i) {
                return Err(fmt::Error);
            }
            let r = if *as_char && fr.chars().count() == 1 {
                f.write_char(fr.chars().next().unwrap())
            } else {
                f.write_str(fr)
            };
            if !self.swallow {
                r?;
            }
        }
        if self.fail_at == Some(self.frags.len()) {
            return Err(fmt::Error);
        }
        Ok(())
    }
}

pub trait IntoOpt<T> {
    fn into_opt(self) -> Option<T>;
}
impl<T> IntoOpt<T> for Option<T> {
    fn into_opt(self) -> Option<T> {
        self
    }
}

pub trait Dec: Sized + fmt::Display + fmt::Debug {
    const NAME: &'static str;
    fn parse_str(s: &str) -> Result<Self, decstr::Error>;
    fn parse_fmt(d: &dyn fmt::Display) -> Result<Self, decstr::Error>;
    fn from_le(b: &[u8]) -> Option<Self>;
    fn try_le(b: &[u8]) -> Option<Result<Self, decstr::Error>>;
    fn le(&self) -> Vec<u8>;
    fn be_api(b: &[u8]) -> Option<(Vec<u8>, Vec<u8>)>; // (to_be_bytes(from_le(b)), as_le(from_be(b)))
    fn cls(&self) -> [bool; 6];
    fn to_int(&self, ty: &str) -> Option<Option<i128>>; // None = unknown type; inner as i128 (u128 handled separately)
    fn to_u128x(&self) -> Option<u128>;
    fn from_int(ty: &str, v: i128, vu: u128) -> Option<Option<Self>>;
    fn to_f(&self, ty: &str) -> Option<Option<u64>>;
    fn from_f(ty: &str, bits: u64) -> Option<Option<Self>>;
    fn consts() -> Option<String>;
    fn zero_v() -> Self;
    // the same operations through the conversion traits (`FromStr`, `TryFrom<&str>`, `From`/`TryFrom` between decimals and
    // primitives): separate impls in the crate, so separate entry points here. `via`: 1 = FromStr, 2 = TryFrom<&str>
    fn parse_via(s: &str, via: u8) -> Result<Self, decstr::Error>;
    fn to_int_t(self, ty: &str) -> Option<Option<i128>>;
    fn to_u128_t(self) -> Option<u128>;
    fn from_int_t(ty: &str, v: i128, vu: u128) -> Option<Result<Self, String>>;
    fn to_f_t(self, ty: &str) -> Option<Option<u64>>;
    fn from_f_t(ty: &str, bits: u64) -> Option<Result<Self, String>>;
}

macro_rules! impl_into_opt {
    ($($t:ty),*) => { $( impl IntoOpt<$t> for $t { fn into_opt(self) -> Option<$t> { Some(self) } } )* };
}
impl_into_opt!(Bitstring32, Bitstring64, Bitstring128, Bitstring);
#[cfg(feature = "big")]
impl_into_opt!(BigBitstring);
impl_into_opt!(f32, f64);

macro_rules! impl_dec_common {
    ($t:ident) => {
        fn parse_str(s: &str) -> Result<Self, decstr::Error> {
            $t::try_parse_str(s)
        }
        fn parse_fmt(d: &dyn fmt::Display) -> Result<Self, decstr::Error> {
            $t::try_parse(d)
        }
        fn cls(&self) -> [bool; 6] {
            [
                self.is_sign_negative(),
                self.is_finite(),
                self.is_infinite(),
                self.is_nan(),
                self.is_quiet_nan(),
                self.is_signaling_nan(),
            ]
        }
        fn to_int(&self, ty: &str) -> Option<Option<i128>> {
            Some(match ty {
                "i8" => self.to_i8().map(|v| v as i128),
                "i16" => self.to_i16().map(|v| v as i128),
                "i32" => self.to_i32().map(|v| v as i128),
                "i64" => self.to_i64().map(|v| v as i128),
                "i128" => self.to_i128(),
                "u8" => self.to_u8().map(|v| v as i128),
                "u16" => self.to_u16().map(|v| v as i128),
                "u32" => self.to_u32().map(|v| v as i128),
                "u64" => self.to_u64().map(|v| v as i128),
                _ => return None,
            })
        }
        fn to_u128x(&self) -> Option<u128> {
            self.to_u128()
        }
        fn from_int(ty: &str, v: i128, vu: u128) -> Option<Option<Self>> {
            Some(match ty {
                "i8" => IntoOpt::<Self>::into_opt($t::from_i8(v as i8)),
                "i16" => IntoOpt::<Self>::into_opt($t::from_i16(v as i16)),
                "i32" => IntoOpt::<Self>::into_opt($t::from_i32(v as i32)),
                "i64" => IntoOpt::<Self>::into_opt($t::from_i64(v as i64)),
                "i128" => IntoOpt::<Self>::into_opt($t::from_i128(v)),
                "u8" => IntoOpt::<Self>::into_opt($t::from_u8(vu as u8)),
                "u16" => IntoOpt::<Self>::into_opt($t::from_u16(vu as u16)),
                "u32" => IntoOpt::<Self>::into_opt($t::from_u32(vu as u32)),
                "u64" => IntoOpt::<Self>::into_opt($t::from_u64(vu as u64)),
                "u128" => IntoOpt::<Self>::into_opt($t::from_u128(vu)),
                _ => return None,
            })
        }
        fn to_f(&self, ty: &str) -> Option<Option<u64>> {
            Some(match ty {
                "f32" => IntoOpt::<f32>::into_opt(self.to_f32()).map(|f| f.to_bits() as u64),
                "f64" => IntoOpt::<f64>::into_opt(self.to_f64()).map(|f| f.to_bits()),
                _ => return None,
            })
        }
        fn from_f(ty: &str, bits: u64) -> Option<Option<Self>> {
            Some(match ty {
                "f32" => IntoOpt::<Self>::into_opt($t::from_f32(f32::from_bits(bits as u32))),
                "f64" => IntoOpt::<Self>::into_opt($t::from_f64(f64::from_bits(bits))),
                _ => return None,
            })
        }
        fn zero_v() -> Self {
            $t::zero()
        }
        fn parse_via(s: &str, via: u8) -> Result<Self, decstr::Error> {
            match via {
                1 => s.parse::<$t>(),
                2 => <$t as TryFrom<&str>>::try_from(s),
                _ => $t::try_parse_str(s),
            }
        }
        fn to_int_t(self, ty: &str) -> Option<Option<i128>> {
            Some(match ty {
                "i8" => okf(<i8 as TryFrom<$t>>::try_from(self)).map(|v| v as i128),
                "i16" => okf(<i16 as TryFrom<$t>>::try_from(self)).map(|v| v as i128),
                "i32" => okf(<i32 as TryFrom<$t>>::try_from(self)).map(|v| v as i128),
                "i64" => okf(<i64 as TryFrom<$t>>::try_from(self)).map(|v| v as i128),
                "i128" => okf(<i128 as TryFrom<$t>>::try_from(self)),
                "u8" => okf(<u8 as TryFrom<$t>>::try_from(self)).map(|v| v as i128),
                "u16" => okf(<u16 as TryFrom<$t>>::try_from(self)).map(|v| v as i128),
                "u32" => okf(<u32 as TryFrom<$t>>::try_from(self)).map(|v| v as i128),
                "u64" => okf(<u64 as TryFrom<$t>>::try_from(self)).map(|v| v as i128),
                _ => return None,
            })
        }
        fn to_u128_t(self) -> Option<u128> {
            okf(<u128 as TryFrom<$t>>::try_from(self))
        }
        fn from_int_t(ty: &str, v: i128, vu: u128) -> Option<Result<Self, String>> {
            Some(match ty {
                "i8" => rs(<$t as TryFrom<i8>>::try_from(v as i8)),
                "i16" => rs(<$t as TryFrom<i16>>::try_from(v as i16)),
                "i32" => rs(<$t as TryFrom<i32>>::try_from(v as i32)),
                "i64" => rs(<$t as TryFrom<i64>>::try_from(v as i64)),
                "i128" => rs(<$t as TryFrom<i128>>::try_from(v)),
                "u8" => rs(<$t as TryFrom<u8>>::try_from(vu as u8)),
                "u16" => rs(<$t as TryFrom<u16>>::try_from(vu as u16)),
                "u32" => rs(<$t as TryFrom<u32>>::try_from(vu as u32)),
                "u64" => rs(<$t as TryFrom<u64>>::try_from(vu as u64)),
                "u128" => rs(<$t as TryFrom<u128>>::try_from(vu)),
                _ => return None,
            })
        }
        fn to_f_t(self, ty: &str) -> Option<Option<u64>> {
            Some(match ty {
                "f32" => okf(<f32 as TryFrom<$t>>::try_from(self)).map(|f| f.to_bits() as u64),
                "f64" => okf(<f64 as TryFrom<$t>>::try_from(self)).map(|f| f.to_bits()),
                _ => return None,
            })
        }
        fn from_f_t(ty: &str, bits: u64) -> Option<Result<Self, String>> {
            Some(match ty {
                "f32" => rs(<$t as TryFrom<f32>>::try_from(f32::from_bits(bits as u32))),
                "f64" => rs(<$t as TryFrom<f64>>::try_from(f64::from_bits(bits))),
                _ => return None,
            })
        }
    };
}

macro_rules! impl_dec_fixed {
    ($t:ident, $name:literal, $n:literal) => {
        impl Dec for $t {
            const NAME: &'static str = $name;
            impl_dec_common!($t);
            fn from_le(b: &[u8]) -> Option<Self> {
                let a: [u8; $n] = b.try_into().ok()?;
                Some($t::from_le_bytes(a))
            }
            fn try_le(_: &[u8]) -> Option<Result<Self, decstr::Error>> {
                None
            }
            fn le(&self) -> Vec<u8> {
                self.as_le_bytes().to_vec()
            }
            fn be_api(b: &[u8]) -> Option<(Vec<u8>, Vec<u8>)> {
                let a: [u8; $n] = b.try_into().ok()?;
                Some((
                    $t::from_le_bytes(a).to_be_bytes().to_vec(),
                    $t::from_be_bytes(a).as_le_bytes().to_vec(),
                ))
            }
            fn consts() -> Option<String> {
                Some(format!(
                    "consts {} {} {} {} {} {} {} {} {}",
                    hex($t::MAX.as_le_bytes()),
                    hex($t::MIN.as_le_bytes()),
                    hex($t::MIN_POSITIVE.as_le_bytes()),
                    hex($t::max().as_le_bytes()),
                    hex($t::min().as_le_bytes()),
                    hex($t::min_positive().as_le_bytes()),
                    $t::DIGITS,
                    $t::MIN_10_EXP,
                    $t::MAX_10_EXP
                ))
            }
        }
    };
}

macro_rules! impl_dec_dyn {
    ($t:ident, $name:literal) => {
        impl Dec for $t {
            const NAME: &'static str = $name;
            impl_dec_common!($t);
            fn from_le(b: &[u8]) -> Option<Self> {
                $t::try_from_le_bytes(b).ok()
            }
            fn try_le(b: &[u8]) -> Option<Result<Self, decstr::Error>> {
                Some($t::try_from_le_bytes(b))
            }
            fn le(&self) -> Vec<u8> {
                self.as_le_bytes().to_vec()
            }
            fn be_api(_: &[u8]) -> Option<(Vec<u8>, Vec<u8>)> {
                None
            }
            fn consts() -> Option<String> {
                None
            }
        }
    };
}

impl_dec_fixed!(Bitstring32, "b32", 4);
impl_dec_fixed!(Bitstring64, "b64", 8);
impl_dec_fixed!(Bitstring128, "b128", 16);
impl_dec_dyn!(Bitstring, "dyn");
#[cfg(feature = "big")]
impl_dec_dyn!(BigBitstring, "big");

fn guard<F: FnOnce() -> String>(f: F) -> String {
    match catch_unwind(AssertUnwindSafe(f)) {
        Ok(s) => s,
        Err(_) => "panic".to_string(),
    }
}

fn guard_tok<F: FnOnce() -> String>(f: F) -> String {
    guard(f)
}

#[cfg(feature = "big")]
fn big_len(txt: &str) -> usize {
    catch_unwind(AssertUnwindSafe(|| {
        BigBitstring::try_parse_str(txt).map(|b| b.as_le_bytes().len()).unwrap_or(0)
    }))
    .unwrap_or(0)
}
#[cfg(not(feature = "big"))]
fn big_len(_: &str) -> usize {
    0
}

/// the error types of the `TryFrom` impls: `decstr::Error`, or `Infallible` where `From` is offered
pub trait ErrText {
    fn text(&self) -> String;
}
impl ErrText for decstr::Error {
    fn text(&self) -> String {
        let _ = format!("{:?}", self);
        self.to_string()
    }
}
impl ErrText for core::convert::Infallible {
    fn text(&self) -> String {
        match *self {}
    }
}
fn rs<T, E: ErrText>(r: Result<T, E>) -> Result<T, String> {
    r.map_err(|e| e.text())
}

/// the error of a `TryFrom<int|float>` impl, with the width `BigBitstring` chooses for the same number (`txt`)
fn conv_err<D: Dec>(e: &str, txt: &str) -> String {
    let (k, a, b) = err_facts(e);
    let big = if k == "overflow" && D::NAME != "big" { big_len(txt) } else { 0 };
    format!("err:{}:{}:{}:{}", k, a, b, big)
}

/// `Err` of a decimal -> primitive `TryFrom`: its text is formatted (it must not panic) and dropped
fn okf<T, E: ErrText>(r: Result<T, E>) -> Option<T> {
    rs(r).ok()
}

fn oans_int(v: Option<i128>) -> String {
    match v {
        Some(v) => format!("some:{}", v),
        None => "none".into(),
    }
}

fn to_int_tok<D: Dec>(d: &D, ity: &str) -> String {
    guard_tok(|| {
        if ity == "u128" {
            match d.to_u128x() {
                Some(v) => format!("some:{}", v),
                None => "none".into(),
            }
        } else {
            match d.to_int(ity) {
                Some(v) => oans_int(v),
                None => "bad".into(),
            }
        }
    })
}

fn to_int_tok_t<D: Dec>(d: D, ity: &str) -> String {
    guard_tok(|| {
        if ity == "u128" {
            match d.to_u128_t() {
                Some(v) => format!("some:{}", v),
                None => "none".into(),
            }
        } else {
            match d.to_int_t(ity) {
                Some(v) => oans_int(v),
                None => "bad".into(),
            }
        }
    })
}

fn to_f_tok_t<D: Dec>(d: D, fty: &str) -> String {
    guard_tok(|| match d.to_f_t(fty) {
        Some(Some(bits)) => {
            if fty == "f32" {
                format!("some:{:08x}", bits)
            } else {
                format!("some:{:016x}", bits)
            }
        }
        Some(None) => "none".into(),
        None => "bad".into(),
    })
}

fn to_f_tok<D: Dec>(d: &D, fty: &str) -> String {
    guard_tok(|| match d.to_f(fty) {
        Some(Some(bits)) => {
            if fty == "f32" {
                format!("some:{:08x}", bits)
            } else {
                format!("some:{:016x}", bits)
            }
        }
        Some(None) => "none".into(),
        None => "bad".into(),
    })
}

/// `from_le` gave no value: `skip` when the length is not one the type holds (the request does not apply to it),
/// `refused` when `try_from_le_bytes` turned down a length it must accept — the check reports that instead of
/// silently losing the request
fn no_value<D: Dec>(b: &[u8]) -> String {
    let must = match D::NAME {
        "dyn" => !b.is_empty() && b.len() % 4 == 0 && b.len() <= 20,
        "big" => !b.is_empty() && b.len() % 4 == 0,
        _ => false,
    };
    if must { "refused".into() } else { "skip".into() }
}

fn first_tok(s: &str) -> (bool, String) {
    // the grammar is case-insensitive and allows a `+`: the category token is read the same way
    let s = s.to_ascii_lowercase();
    let s = s.as_str();
    let neg = s.starts_with('-');
    let r = s.trim_start_matches(|c| c == '-' || c == '+');
    let tok = if r.starts_with("inf") {
        "inf"
    } else if r.starts_with("nan") {
        "nan"
    } else if r.starts_with("snan") {
        "snan"
    } else if r.chars().next().map_or(false, |c| c.is_ascii_digit()) {
        "d"
    } else {
        "other"
    };
    (neg, tok.to_string())
}

pub fn parse_frags(s: &str) -> Option<Vec<(String, bool)>> {
    if s == "." {
        return Some(vec![]);
    }
    s.split(',')
        .map(|f| {
            let (as_char, h) = if f.len() % 2 == 1 && f.starts_with('c') {
                (true, &f[1..])
            } else {
                (false, f)
            };
            let b = unhex(h)?;
            Some((String::from_utf8(b).ok()?, as_char))
        })
        .collect()
}

fn run_typed<D: Dec>(req0: &[&str]) -> String {
    // `op@fromstr`, `op@tryfrom`, `op@t`: the same operation through the conversion traits
    let (op, via) = match req0[0].split_once('@') {
        Some((op, "fromstr")) => (op, 1u8),
        Some((op, _)) => (op, 2u8),
        None => (req0[0], 0u8),
    };
    let mut reqv: Vec<&str> = req0.to_vec();
    reqv[0] = op;
    let req: &[&str] = &reqv;
    if via != 0 {
        return match req {
            ["parse_str", _, txt] => {
                let Some(b) = unhex(txt) else { return "bad".into() };
                let Ok(s) = String::from_utf8(b) else { return "skip".into() };
                guard(|| match D::parse_via(&s, via) {
                    Ok(d) => format!("ok:{} {}", hex(&d.le()), hex(d.to_string().as_bytes())),
                    Err(e) => {
                        let (k, _, _) = err_facts(&e.to_string());
                        let big = if k == "overflow" && D::NAME != "big" { big_len(&s) } else { 0 };
                        pans_err(&e, big)
                    }
                })
            }
            ["to_int", _, b, ity] => {
                let Some(b) = unhex(b) else { return "bad".into() };
                guard(|| {
                    let Some(d) = D::from_le(&b) else { return no_value::<D>(&b) };
                    to_int_tok_t(d, ity)
                })
            }
            ["from_int", _, ity, v] => {
                let (vi, vu): (i128, u128) = if ity.starts_with('u') {
                    let Ok(u) = v.parse::<u128>() else { return "bad".into() };
                    (u as i128, u)
                } else {
                    let Ok(i) = v.parse::<i128>() else { return "bad".into() };
                    (i, i as u128)
                };
                guard(|| match D::from_int_t(ity, vi, vu) {
                    Some(Ok(d)) => {
                        let txt = hex(d.to_string().as_bytes());
                        let le = hex(&d.le());
                        format!("ok:{} {} {}", le, txt, to_int_tok_t(d, ity))
                    }
                    // the `TryFrom` impl reports its refusal as an error whose text C17 speaks about
                    Some(Err(e)) => conv_err::<D>(&e, v),
                    None => "bad".into(),
                })
            }
            ["to_float", _, b, fty] => {
                let Some(b) = unhex(b) else { return "bad".into() };
                guard(|| {
                    let Some(d) = D::from_le(&b) else { return no_value::<D>(&b) };
                    to_f_tok_t(d, fty)
                })
            }
            ["from_float", _, fty, bits, ryu] => {
                let Ok(bits) = u64::from_str_radix(bits, 16) else { return "bad".into() };
                let ryu = unhex(ryu).and_then(|b| String::from_utf8(b).ok()).unwrap_or_default();
                guard(|| match D::from_f_t(fty, bits) {
                    Some(Ok(d)) => {
                        let txt = hex(d.to_string().as_bytes());
                        let le = hex(&d.le());
                        format!("ok:{} {} {}", le, txt, to_f_tok_t(d, fty))
                    }
                    Some(Err(e)) => conv_err::<D>(&e, &ryu),
                    None => "bad".into(),
                })
            }
            _ => "bad".into(),
        };
    }
    match req {
        ["parse_str", _, txt] => {
            let Some(b) = unhex(txt) else { return "bad".into() };
            let Ok(s) = String::from_utf8(b) else { return "skip".into() };
            guard(|| match D::parse_str(&s) {
                Ok(d) => format!("ok:{} {}", hex(&d.le()), hex(d.to_string().as_bytes())),
                Err(e) => {
                    let (k, _, _) = err_facts(&e.to_string());
                    let big = if k == "overflow" && D::NAME != "big" { big_len(&s) } else { 0 };
                    pans_err(&e, big)
                }
            })
        }
        ["parse_fmt", _, _cap, frs, fault] => {
            let Some(frags) = parse_frags(frs) else { return "skip".into() };
            let (fail_at, swallow) = if *fault == "swallow" {
                (None, true)
            } else if let Some(k) = fault.strip_prefix("fail:") {
                (k.parse().ok(), false)
            } else {
                (None, false)
            };
            let disp = Frags { frags: &frags, fail_at, swallow };
            guard(|| match D::parse_fmt(&disp) {
                Ok(d) => format!("ok:{}", hex(&d.le())),
                Err(e) => pans_err(&e, 0),
            })
        }
        ["format", _, b] => {
            let Some(b) = unhex(b) else { return "bad".into() };
            guard(|| {
                let Some(d) = D::from_le(&b) else { return no_value::<D>(&b) };
                let s = d.to_string();
                let g = format!("{:?}", d);
                // formatter options (width, fill, alignment, sign, precision, alternate) are part of the public Display /
                // Debug surface: whatever the crate does with them, it must not panic (their output is not compared)
                let _ = format!("{:3}|{:>40}|{:<5}|{:^7}|{:+}|{:08}|{:.2}|{:#?}|{:*^w$}|{:w$}", d, d, d, d, d, d, d, d, d, d, w = 1usize);
                // `1` = the Debug text is the Display text; otherwise the Debug text itself (`d<hex>`), judged like Display
                if s == g {
                    format!("ok {} 1", hex(s.as_bytes()))
                } else {
                    format!("ok {} d{}", hex(s.as_bytes()), hex(g.as_bytes()))
                }
            })
        }
        ["roundtrip", _, b] => {
            let Some(b) = unhex(b) else { return "bad".into() };
            guard(|| {
                let Some(d) = D::from_le(&b) else { return no_value::<D>(&b) };
                let s = d.to_string();
                // formatter options must not panic either (see `format`)
                let _ = format!("{:3}|{:>40}|{:<5}|{:^7}|{:+}|{:08}|{:.2}|{:#?}|{:*^w$}|{:w$}", d, d, d, d, d, d, d, d, d, d, w = 1usize);
                let mut stable = true;
                let back = guard_tok(|| match D::parse_str(&s) {
                    Ok(d2) => {
                        let s2 = d2.to_string();
                        stable = match D::parse_str(&s2) {
                            Ok(d3) => d3.le() == d2.le(),
                            Err(_) => false,
                        };
                        format!("ok:{}", hex(&d2.le()))
                    }
                    Err(e) => pans_err(&e, 0),
                });
                format!("ok {} {} {}", hex(s.as_bytes()), back, if stable { 1 } else { 0 })
            })
        }
        ["classify", _, b] => {
            let Some(b) = unhex(b) else { return "bad".into() };
            guard(|| {
                let Some(d) = D::from_le(&b) else { return no_value::<D>(&b) };
                let c = d.cls();
                let bits: String = c.iter().map(|x| if *x { '1' } else { '0' }).collect();
                let (neg, tok) = first_tok(&d.to_string());
                format!("cls {} {} {}", bits, if neg { 1 } else { 0 }, tok)
            })
        }
        ["to_int", _, b, ity] => {
            let Some(b) = unhex(b) else { return "bad".into() };
            guard(|| {
                let Some(d) = D::from_le(&b) else { return no_value::<D>(&b) };
                to_int_tok(&d, ity)
            })
        }
        ["from_int", _, ity, v] => {
            let (vi, vu): (i128, u128) = if ity.starts_with('u') {
                let Ok(u) = v.parse::<u128>() else { return "bad".into() };
                (u as i128, u)
            } else {
                let Ok(i) = v.parse::<i128>() else { return "bad".into() };
                (i, i as u128)
            };
            guard(|| match D::from_int(ity, vi, vu) {
                Some(Some(d)) => format!(
                    "ok:{} {} {}",
                    hex(&d.le()),
                    hex(d.to_string().as_bytes()),
                    to_int_tok(&d, ity)
                ),
                Some(None) => "none".into(),
                None => "bad".into(),
            })
        }
        ["to_float", _, b, fty] => {
            let Some(b) = unhex(b) else { return "bad".into() };
            guard(|| {
                let Some(d) = D::from_le(&b) else { return no_value::<D>(&b) };
                to_f_tok(&d, fty)
            })
        }
        ["from_float", _, fty, bits, _ryu] => {
            let Ok(bits) = u64::from_str_radix(bits, 16) else { return "bad".into() };
            guard(|| match D::from_f(fty, bits) {
                Some(Some(d)) => format!(
                    "ok:{} {} {}",
                    hex(&d.le()),
                    hex(d.to_string().as_bytes()),
                    to_f_tok(&d, fty)
                ),
                Some(None) => "none".into(),
                None => "bad".into(),
            })
        }
        ["bytes", _, b] => {
            let Some(b) = unhex(b) else { return "bad".into() };
            guard(|| {
                let Some(d) = D::from_le(&b) else { return no_value::<D>(&b) };
                match D::be_api(&b) {
                    Some((be, fb)) => format!("api {} {} {}", hex(&d.le()), hex(&be), hex(&fb)),
                    None => {
                        // dynamic types have no big-endian accessors
                        let mut r = b.clone();
                        r.reverse();
                        format!("api {} {} {}", hex(&d.le()), hex(&r), hex(&r))
                    }
                }
            })
        }
        ["try_le", _, b] => {
            let Some(b) = unhex(b) else { return "bad".into() };
            let one = |slice: &[u8]| {
                guard(|| match D::try_le(slice) {
                    Some(Ok(d)) => format!("ok:{}", hex(&d.le())),
                    Some(Err(e)) => pans_err(&e, 0),
                    None => "skip".into(),
                })
            };
            let a0 = one(&b);
            // the same bytes at the other three alignments of the slice's start address: the answer may depend on the
            // length and the bytes only
            if b.len() <= 4096 && a0 != "skip" {
                for off in 1..4usize {
                    let mut buf = vec![0xEEu8; off + 8];
                    buf.truncate(off);
                    buf.extend_from_slice(&b);
                    let a = one(&buf[off..]);
                    if a != a0 {
                        return a;
                    }
                }
            }
            a0
        }
        // a slice given by its length and one fill byte (lengths that do not travel through the line protocol)
        ["try_le_fill", _, len, byte] => {
            let (Ok(len), Ok(byte)) = (len.parse::<usize>(), u8::from_str_radix(byte, 16)) else { return "bad".into() };
            guard(|| {
                let b = vec![byte; len];
                match D::try_le(&b) {
                    Some(Ok(d)) => {
                        let le = d.le();
                        format!("okfill {} {}", le.len(), if le == b { 1 } else { 0 })
                    }
                    Some(Err(e)) => pans_err(&e, 0),
                    None => "skip".into(),
                }
            })
        }
        ["consts", _] => guard(|| D::consts().unwrap_or_else(|| "skip".into())),
        // `zero()` is documented as `from(0u8)`: answered in the format of `from_int <ty> u8 0` and judged as that
        ["zero", _] => guard(|| {
            let d = D::zero_v();
            let txt = hex(d.to_string().as_bytes());
            let le = hex(&d.le());
            format!("ok:{} {} {}", le, txt, to_int_tok(&d, "u8"))
        }),
        _ => "bad".into(),
    }
}

pub fn run_line(line: &str) -> String {
    let req: Vec<&str> = line.split_whitespace().collect();
    if req.len() < 2 {
        return "bad".into();
    }
    match req[1] {
        "b32" => run_typed::<Bitstring32>(&req),
        "b64" => run_typed::<Bitstring64>(&req),
        "b128" => run_typed::<Bitstring128>(&req),
        "dyn" => run_typed::<Bitstring>(&req),
        #[cfg(feature = "big")]
        "big" => run_typed::<BigBitstring>(&req),
        _ => "skip".into(),
    }
}

/// the float formatter decstr depends on, run on the same float
pub fn ryu_text(fty: &str, bits: u64) -> String {
    let mut buf = ryu::Buffer::new();
    if fty == "f32" {
        let f = f32::from_bits(bits as u32);
        if f.is_finite() { buf.format_finite(f).to_string() } else { String::new() }
    } else {
        let f = f64::from_bits(bits);
        if f.is_finite() { buf.format_finite(f).to_string() } else { String::new() }
    }
}

/// largest k such that streaming k zeros is not answered "buffer too small"
pub fn text_cap(ty: &str) -> Option<usize> {
    if ty == "big" {
        return None;
    }
    // The sizes of the streaming text buffers are part of what the types promise (a text up to this long is never refused
    // for lack of space): `ArrayTextBuf::<32|64|128|128>` at the pinned commit. They are constants here, not probed from
    // the implementation under test — a probe would follow an off-by-one in the capacity test and hide it. `harness caps`
    // prints the probed values next to them.
    match ty {
        "b32" => Some(32),
        "b64" => Some(64),
        _ => Some(128),
    }
}

pub fn probe_text_cap(ty: &str) -> Option<usize> {
    let mut k = 1usize;
    loop {
        // ones, not zeros: redundant zeros are the one thing a parser might legitimately drop
        let s = "1".repeat(k);
        let frags = vec![(s, false)];
        let line_ok = {
            let disp = Frags { frags: &frags, fail_at: None, swallow: false };
            let r = match ty {
                "b32" => Bitstring32::try_parse(&disp).map(|_| ()),
                "b64" => Bitstring64::try_parse(&disp).map(|_| ()),
                "b128" => Bitstring128::try_parse(&disp).map(|_| ()),
                _ => Bitstring::try_parse(&disp).map(|_| ()),
            };
            match r {
                Ok(()) => true,
                Err(e) => err_facts(&e.to_string()).0 != "buffer",
            }
        };
        if !line_ok {
            return Some(k - 1);
        }
        k += 1;
        if k > 2048 {
            return None;
        }
    }
}
