//! Request generators: exhaustive sets (X1..X10 of DESIGN §7) and stratified random strata.
//! Every line is `stratum<TAB>request`.  All randomness derives from one SplitMix64 state.

use crate::ops::{hex, ryu_text, text_cap};
use crate::util::*;
use num_bigint::BigInt;
use num_traits::ToPrimitive;
use std::io::Write;

pub struct Out<'a> {
    pub w: &'a mut dyn Write,
    pub thorough: bool,
    pub rng: Rng,
}

impl<'a> Out<'a> {
    pub fn put(&mut self, stratum: &str, req: String) {
        writeln!(self.w, "{}\t{}", stratum, req).unwrap();
        // The conversion traits (`FromStr`, `TryFrom<&str>`, `From`/`TryFrom` between decimals and primitives) are separate
        // impls in the crate: every fifth eligible request (chosen by a hash of its text, so that the random streams of the
        // generators are not disturbed) is repeated through them, and every request of the limit/edge strata.
        let Some((op, rest)) = req.split_once(' ') else { return };
        if !matches!(op, "parse_str" | "to_int" | "from_int" | "to_float" | "from_float") {
            return;
        }
        let mut h: u64 = 0xcbf29ce484222325;
        for b in req.bytes() {
            h = (h ^ b as u64).wrapping_mul(0x100000001b3);
        }
        let edge = stratum.starts_with("limit") || stratum.starts_with("exp-limit") || stratum.starts_with("special-case");
        if h % 5 != 0 && !edge {
            return;
        }
        let via = if op == "parse_str" { if (h >> 8) % 2 == 0 { "fromstr" } else { "tryfrom" } } else { "t" };
        writeln!(self.w, "{}@trait\t{}@{} {}", stratum, op, via, rest).unwrap();
    }
    pub fn q(&self, quick: usize, thorough: usize) -> usize {
        if self.thorough { thorough } else { quick }
    }
}

fn tx(s: &str) -> String {
    hex(s.as_bytes())
}

// ---------------------------------------------------------------------------------------------
// finite numerals

pub struct Num {
    pub neg: Option<bool>, // None = no sign written
    pub digits: Vec<u8>,   // ASCII, as written (int ++ frac)
    pub frac: usize,       // how many of them follow the point
    pub q: BigInt,         // exponent of the integer coefficient
}

/// one spelling of the numeral, chosen by the rng
pub fn spell_pub(rng: &mut Rng, n: &Num) -> String { spell(rng, n) }
fn spell(rng: &mut Rng, n: &Num) -> String {
    let mut s = String::new();
    match n.neg {
        Some(true) => s.push('-'),
        Some(false) => s.push('+'),
        None => {}
    }
    let d = n.digits.len();
    let il = d - n.frac;
    s.push_str(std::str::from_utf8(&n.digits[..il]).unwrap());
    if n.frac > 0 {
        s.push('.');
        s.push_str(std::str::from_utf8(&n.digits[il..]).unwrap());
    }
    let x = &n.q + BigInt::from(n.frac);
    if x != BigInt::from(0) || rng.chance(1, 2) {
        s.push(if rng.chance(1, 4) { 'E' } else { 'e' });
        let neg = x < BigInt::from(0);
        if neg {
            s.push('-');
        } else if rng.chance(1, 5) {
            s.push('+');
        }
        if rng.chance(1, 6) {
            for _ in 0..rng.range(1, 3) {
                s.push('0');
            }
        }
        s.push_str(&x.magnitude().to_string());
    }
    s
}

fn rand_digits(rng: &mut Rng, d: usize) -> Vec<u8> {
    let style = rng.below(8);
    let mut v: Vec<u8> = (0..d)
        .map(|_| match style {
            0 => b'9',
            1 => b'0',
            2 => *rng.pick(b"89"),
            _ => b'0' + rng.below(10) as u8,
        })
        .collect();
    match rng.below(6) {
        0 => {
            let k = rng.below(d as u64 + 1) as usize; // leading zeros
            for x in v.iter_mut().take(k) {
                *x = b'0';
            }
        }
        1 => {
            let k = rng.below(d as u64 + 1) as usize; // trailing zeros
            for x in v.iter_mut().rev().take(k) {
                *x = b'0';
            }
        }
        2 => {
            if v[0] == b'0' {
                v[0] = b'1' + rng.below(9) as u8;
            }
        }
        _ => {}
    }
    v
}

fn pick_digit_count(rng: &mut Rng, p: usize) -> usize {
    match rng.below(10) {
        0 => 1,
        1 => 2,
        2 => 3,
        3 => p,
        4 => p - 1,
        5 => p + 1,
        6 => p + rng.range(2, 4) as usize,
        _ => rng.range(1, p as i64) as usize,
    }
}

fn pick_exp(rng: &mut Rng, f: Fmt) -> BigInt {
    let (lo, hi) = (f.qmin(), f.qmax());
    let d = BigInt::from(rng.range(-3, 3));
    match rng.below(10) {
        0 | 1 => lo + d,
        2 | 3 => hi + d,
        4 => BigInt::from(rng.range(-3, 3)),
        5 => {
            // next narrower format's boundaries
            if f.n > 1 {
                let g = Fmt { n: f.n - 1 };
                if rng.chance(1, 2) { g.qmin() + d } else { g.qmax() + d }
            } else {
                BigInt::from(rng.range(-120, 120))
            }
        }
        _ => {
            let span = (&hi - &lo).to_u64().unwrap_or(u64::MAX);
            &lo + BigInt::from(rng.below(span.saturating_add(1)))
        }
    }
}

fn pick_n(rng: &mut Rng, ty: &str) -> usize {
    match cap_n(ty) {
        Some(c) if type_n(ty).is_some() => c,
        Some(_) => rng.range(1, 5) as usize,
        None => match rng.below(10) {
            0..=4 => rng.range(1, 5) as usize,
            5..=7 => rng.range(6, 12) as usize,
            8 => rng.range(13, 40) as usize,
            _ => rng.range(41, 120) as usize,
        },
    }
}

pub fn rand_num(rng: &mut Rng, ty: &str) -> Num {
    let f = Fmt { n: pick_n(rng, ty) };
    let d = pick_digit_count(rng, f.p());
    let digits = rand_digits(rng, d);
    let frac = if rng.chance(1, 2) { 0 } else { rng.below(d as u64) as usize };
    Num {
        neg: *rng.pick(&[None, None, Some(true), Some(true), Some(false)]),
        digits,
        frac,
        q: pick_exp(rng, f),
    }
}

pub fn g_numerals(o: &mut Out, op: &str, types: &[&str], count: usize) {
    for ty in types {
        for _ in 0..count {
            let n = rand_num(&mut o.rng, ty);
            let s = spell(&mut o.rng, &n);
            o.put(&format!("numeral/{}", ty), format!("{} {} {}", op, ty, tx(&s)));
        }
    }
}

/// the same numeral in several spellings (C01_spelling) and through the streaming entry point
pub fn g_spellings(o: &mut Out, types: &[&str], count: usize) {
    for ty in types {
        for _ in 0..count {
            let mut n = rand_num(&mut o.rng, ty);
            for _ in 0..3 {
                n.frac = o.rng.below(n.digits.len() as u64) as usize;
                if n.neg == Some(false) && o.rng.chance(1, 2) {
                    n.neg = None;
                }
                let s = spell(&mut o.rng, &n);
                o.put(&format!("spelling/{}", ty), format!("parse_str {} {}", ty, tx(&s)));
                o.put(&format!("spelling-fmt/{}", ty), format!("parse_fmt {} - {} -", ty, tx(&s)));
            }
        }
    }
}

/// very long digit strings and huge exponent texts
pub fn g_long(o: &mut Out, count: usize) {
    for _ in 0..count {
        let d = *o.rng.pick(&[44usize, 45, 52, 53, 61, 70, 100, 250, 999, 2000]);
        let digits = rand_digits(&mut o.rng, d);
        let elen = *o.rng.pick(&[1usize, 3, 6, 9, 10, 11, 19, 20, 40, 120, 300]);
        let mut e: String = (0..elen).map(|_| (b'0' + o.rng.below(10) as u8) as char).collect();
        if e.starts_with('0') {
            e.replace_range(0..1, "1");
        }
        let s = format!(
            "{}{}e{}{}",
            if o.rng.chance(1, 2) { "-" } else { "" },
            std::str::from_utf8(&digits).unwrap(),
            if o.rng.chance(1, 2) { "-" } else { "" },
            e
        );
        for ty in ["big", "dyn", "b128"] {
            o.put(&format!("long/{}", ty), format!("parse_str {} {}", ty, tx(&s)));
        }
    }
}

/// exponent texts at and beyond the 32-bit limits, with and without fractional digits (C04, C17)
pub fn g_exp_limits(o: &mut Out) {
    let edges: [i128; 6] = [2147483647, 2147483648, -2147483648, -2147483649, 4294967296, -4294967296];
    for ty in TYPES {
        for e in edges {
            for d in -3i128..=3 {
                for body in ["1", "0", "1.5", "0.0", "1.000", "12345678901234567890"] {
                    o.put(&format!("exp-limit/{}", ty), format!("parse_str {} {}", ty, tx(&format!("{}e{}", body, e + d))));
                    o.put(&format!("exp-limit/{}", ty), format!("parse_str {} {}", ty, tx(&format!("-{}E{}", body, e + d))));
                }
            }
        }
        for body in ["1", "1.5"] {
            for e in ["99999999999999999999", "-99999999999999999999", "1".repeat(300).as_str(), "00000000000000000000000000000000000000000001"] {
                o.put(&format!("exp-limit/{}", ty), format!("parse_str {} {}", ty, tx(&format!("{}e{}", body, e))));
            }
        }
    }
}

/// X6: the (digit count, exponent) grid around every width-table edge
pub fn g_grid(o: &mut Out, types: &[&str]) {
    let ds: Vec<usize> = if o.thorough { (1..=60).collect() } else { vec![1, 6, 7, 8, 15, 16, 17, 24, 25, 26, 33, 34, 35, 42, 43, 44, 52, 53] };
    let mut es: Vec<i64> = vec![];
    if o.thorough {
        es.extend(-26000..=26000);
    } else {
        for n in 1..=6 {
            let f = Fmt { n };
            for base in [f.qmin_i(), f.qmax_i()] {
                es.extend(base - 3..=base + 3);
            }
        }
        es.extend(-2..=2);
    }
    for ty in types {
        for &d in &ds {
            for &e in &es {
                // a d-digit integer coefficient starting with a non-zero digit
                let s = format!("{}{}e{}", 1 + (d + e.unsigned_abs() as usize) % 9, "0".repeat(d - 1), e);
                o.put(&format!("grid/{}", ty), format!("parse_str {} {}", ty, tx(&s)));
            }
        }
    }
}

/// exponent *texts* of every length: 1..=45 digits with leading 1 or 9, around 2^31, 2^32, 2^63, 2^64, 2^127, 2^128, both
/// signs, plain and zero padded — the exponent goes through `i32`, `u32`/`i64`/`i128` fast paths and big-integer parsing
pub fn g_exp_texts(o: &mut Out, types: &[&str]) {
    let mut es: Vec<String> = vec![];
    for len in 1..=45usize {
        for lead in ['1', '9'] {
            es.push(format!("{}{}", lead, "0".repeat(len - 1)));
            es.push(format!("{}{}", lead, "9".repeat(len - 1)));
        }
    }
    for pow in [31u32, 32, 63, 64, 127, 128] {
        let base = BigInt::from(1) << pow;
        for d in -2i64..=2 {
            es.push((&base + BigInt::from(d)).to_string());
            // just below the power, by about one format's exponent range (where a narrowing cast lands back in range)
            es.push((&base - BigInt::from(24617 + d)).to_string());
        }
    }
    // small exponents padded with zeros to every interesting text length (9..12, 19..21, 39..41 digits: the lengths of
    // i32/u32, i64/u64 and i128/u128 limits): the value, not the length of its text, decides
    for total in [9usize, 10, 11, 12, 19, 20, 21, 39, 40, 41] {
        for small in ["0", "5", "90", "369", "6111", "24534", "24617"] {
            es.push(format!("{}{}", "0".repeat(total - small.len()), small));
        }
    }
    for ty in types {
        for e in &es {
            for body in ["1", "7.5"] {
                for sign in ["", "-"] {
                    o.put(&format!("exp-text/{}", ty), format!("parse_str {} {}", ty, tx(&format!("{}e{}{}", body, sign, e))));
                }
            }
            o.put(&format!("exp-text/{}", ty), format!("parse_str {} {}", ty, tx(&format!("1E+000{}", e))));
        }
    }
}

/// finite values held in *wide* BigBitstring buffers (192 bits … 3200 bits): small coefficients, full coefficients,
/// exponents at zero, at the edges of the width and inside; the decoders and conversions must not depend on the width
pub fn wide_big_patterns(o: &mut Out) -> Vec<Vec<u8>> {
    let mut v = vec![];
    for n in [6usize, 7, 8, 13, 16, 29, 30, 31, 32, 33, 61, 62, 63, 64, 65, 100] {
        let f = Fmt { n };
        let p = f.p();
        let coefs: Vec<String> = vec!["0".into(), "1".into(), "255".into(), "65536".into(), "9".repeat(p), format!("1{}", "0".repeat(p - 1)), format!("5{}", "0".repeat(20)), (0..p.min(40)).map(|_| (b'0' + o.rng.below(10) as u8) as char).collect()];
        let mut qs: Vec<BigInt> = vec![BigInt::from(0), BigInt::from(-1), BigInt::from(-20), BigInt::from(3), BigInt::from(-(p as i64) + 1), f.qmin(), f.qmax(), f.qmin() + BigInt::from(5), f.qmax() - BigInt::from(5), f.qmax() / BigInt::from(2)];
        // exponents around the i32 and i64 limits, where a narrower exponent representation would saturate or wrap
        for lim in [BigInt::from(i32::MAX), BigInt::from(i32::MIN), BigInt::from(i64::MAX), BigInt::from(i64::MIN)] {
            for d in [-40i64, -2, -1, 0, 1, 2] {
                let q = &lim + BigInt::from(d);
                if q >= f.qmin() && q <= f.qmax() {
                    qs.push(q);
                }
            }
        }
        for c in &coefs {
            for q in &qs {
                // `to_<int>` of a *zero* multiplies by ten once per unit of a positive exponent (it cannot overflow):
                // 2^31 iterations for an exponent at the i32 limit. Not a property, but it would stall the run.
                if c.bytes().all(|d| d == b'0') && *q > BigInt::from(100_000) && *q <= BigInt::from(i32::MAX) {
                    continue;
                }
                v.push(enc_fin(f, o.rng.chance(1, 3), c.as_bytes(), q));
            }
        }
    }
    v
}

/// the four format edges of every width up to `nmax`, through BigBitstring (and Bitstring below 160 bits)
pub fn g_big_edges(o: &mut Out, nmax: usize) {
    for n in 1..=nmax {
        let f = Fmt { n };
        for (edge, base) in [("qmin", f.qmin()), ("qmax", f.qmax())] {
            for dd in -2i64..=2 {
                let e = &base + BigInt::from(dd);
                for d in [1usize, f.p()] {
                    let s = format!("{}e{}", "7".repeat(d), e);
                    o.put(&format!("edge-{}/big", edge), format!("parse_str big {}", tx(&s)));
                    if n <= 6 {
                        o.put(&format!("edge-{}/dyn", edge), format!("parse_str dyn {}", tx(&s)));
                    }
                }
            }
        }
        for d in [f.p() - 1, f.p(), f.p() + 1] {
            let s = "3".repeat(d);
            o.put("edge-digits/big", format!("parse_str big {}", tx(&s)));
        }
    }
    for _ in 0..o.q(300, 5000) {
        let elen = o.rng.range(5, 300) as usize;
        let e: String = (0..elen).map(|i| if i == 0 { '1' } else { (b'0' + o.rng.below(10) as u8) as char }).collect();
        let s = format!("{}e{}{}", o.rng.range(1, 999), if o.rng.chance(1, 2) { "-" } else { "" }, e);
        o.put("huge-exp/big", format!("parse_str big {}", tx(&s)));
    }
    for d in [100usize, 1000, 4999, 5000, 20000, 50000] {
        if d > 5000 && !o.thorough {
            continue;
        }
        let s = "1".repeat(d);
        o.put("huge-digits/big", format!("parse_str big {}", tx(&s)));
    }
}

/// X4: every declet value in every declet slot
pub fn g_declets(o: &mut Out) {
    let widths: Vec<(usize, &str)> = vec![(1, "b32"), (2, "b64"), (4, "b128"), (1, "dyn"), (2, "dyn"), (3, "dyn"), (4, "dyn"), (5, "dyn"), (3, "big"), (6, "big"), (7, "big"), (8, "big"), (9, "big")];
    for (n, ty) in widths {
        let f = Fmt { n };
        let p = f.p();
        let step = if o.thorough || n <= 2 { 1 } else { 7 };
        for j in 0..f.declets() {
            let mut v = (j * 3) % step;
            while v < 1000 {
                let mut ds = vec![b'0'; p];
                ds[0] = b'1';
                let i = p - 3 * j - 3;
                ds[i] = b'0' + (v / 100) as u8;
                ds[i + 1] = b'0' + (v / 10 % 10) as u8;
                ds[i + 2] = b'0' + (v % 10) as u8;
                o.put(&format!("declet/{}@{}", ty, 32 * n), format!("parse_str {} {}", ty, hex(&ds)));
                v += step;
            }
        }
    }
}

/// X5: most significant digit x every exponent of the width
pub fn g_msd_exp(o: &mut Out) {
    let plan: Vec<(usize, &str, i64, i64)> = vec![
        (1, "b32", 1, 1), (2, "b64", 1, 1), (4, "b128", 13, 1), (1, "dyn", 1, 1), (2, "dyn", 3, 1),
        (3, "dyn", 5, 1), (4, "dyn", 17, 1), (5, "dyn", 61, 1), (3, "big", 11, 1), (5, "big", 97, 3), (7, "big", 4099, 257),
    ];
    for (n, ty, qstep, tstep) in plan {
        let f = Fmt { n };
        let step = if o.thorough { tstep } else { qstep };
        let (lo, hi) = (f.qmin_i(), f.qmax_i());
        for msd in 0..10u8 {
            let mut e = lo + (msd as i64 % step);
            while e <= hi {
                let mut ds = vec![b'5'; f.p()];
                ds[0] = b'0' + msd;
                let s = format!("{}e{}", std::str::from_utf8(&ds).unwrap(), e);
                o.put(&format!("msd-exp/{}@{}", ty, 32 * n), format!("parse_str {} {}", ty, tx(&s)));
                e += step;
            }
            // always include both ends
            for e in [lo, lo + 1, hi - 1, hi] {
                let mut ds = vec![b'4'; f.p()];
                ds[0] = b'0' + msd;
                o.put(&format!("msd-exp/{}@{}", ty, 32 * n), format!("parse_str {} {}", ty, tx(&format!("{}e{}", std::str::from_utf8(&ds).unwrap(), e))));
            }
        }
    }
}

// ---------------------------------------------------------------------------------------------
// bit patterns

/// patterns of 4n bytes: all 65536 top halfwords (stride in quick mode for n > 1) x low fillers
pub fn top_halfword_patterns(o: &mut Out, n: usize, stride: usize) -> Vec<Vec<u8>> {
    let len = 4 * n;
    let mut out = vec![];
    let mut hw = 0usize;
    while hw < 65536 {
        for fill in 0..3 {
            let mut b = match fill {
                0 => vec![0u8; len],
                1 => vec![0xffu8; len],
                _ => o.rng.bytes(len),
            };
            b[len - 1] = (hw >> 8) as u8;
            b[len - 2] = hw as u8;
            out.push(b);
        }
        hw += stride;
    }
    out
}

/// X3: every 10-bit code point in every declet slot, under a finite header
pub fn code_point_patterns(o: &mut Out, n: usize) -> Vec<Vec<u8>> {
    let f = Fmt { n };
    let mut out = vec![];
    let base = enc_fin(f, false, b"1", &BigInt::from(0));
    for j in 0..f.declets() {
        for cp in 0..1024u32 {
            let mut b = base.clone();
            let bit = 10 * j;
            let v = (cp as u32) << (bit % 8);
            b[bit / 8] |= v as u8;
            b[bit / 8 + 1] |= (v >> 8) as u8;
            if bit % 8 > 6 {
                b[bit / 8 + 2] |= (v >> 16) as u8;
            }
            if o.rng.chance(1, 4) {
                b[4 * n - 1] ^= 0x80;
            }
            out.push(b);
        }
    }
    out
}

/// canonical finite patterns chosen to sit on the formatter's layout switch points
pub fn layout_patterns(o: &mut Out, n: usize) -> Vec<Vec<u8>> {
    let f = Fmt { n };
    let p = f.p();
    let mut out = vec![];
    let sig_counts: Vec<usize> = if n <= 2 || o.thorough { (0..=p).collect() } else { vec![0, 1, 2, 3, 4, 5, 6, 7, p - 3, p - 2, p - 1, p] };
    for &nz in &sig_counts {
        let mut exps: Vec<i64> = vec![0, 1, 2, -1, f.qmin_i(), f.qmax_i()];
        for k in 0..=8 {
            exps.push(-(nz as i64) - k);
            exps.push(-(nz as i64) + k);
        }
        for e in exps {
            if e < f.qmin_i() || e > f.qmax_i() {
                continue;
            }
            let digits: Vec<u8> = if nz == 0 { b"0".to_vec() } else { (0..nz).map(|i| if i == 0 { b'1' + o.rng.below(9) as u8 } else { b'0' + o.rng.below(10) as u8 }).collect() };
            out.push(enc_fin(f, o.rng.chance(1, 3), &digits, &BigInt::from(e)));
            // trailing zeros variant
            if nz >= 2 {
                let mut d2 = digits.clone();
                let l = d2.len();
                d2[l - 1] = b'0';
                out.push(enc_fin(f, false, &d2, &BigInt::from(e)));
            }
        }
    }
    out
}

fn rand_patterns(o: &mut Out, n: usize, count: usize) -> Vec<Vec<u8>> {
    (0..count)
        .map(|_| {
            let mut b = o.rng.bytes(4 * n);
            match o.rng.below(6) {
                0 => b[4 * n - 1] = 0x78 | (o.rng.next() as u8 & 0x87),
                1 => b[4 * n - 1] = 0x7c | (o.rng.next() as u8 & 0x83),
                _ => {}
            }
            b
        })
        .collect()
}

pub fn all_patterns(o: &mut Out, quick_counts: bool) -> Vec<Vec<u8>> {
    let mut v = vec![];
    let widths: Vec<(usize, usize)> = if quick_counts && !o.thorough {
        vec![(1, 1), (2, 3), (3, 17), (4, 7), (5, 17), (6, 61), (8, 127), (9, 127)]
    } else {
        vec![(1, 1), (2, 1), (3, 3), (4, 1), (5, 3), (6, 7), (7, 31), (8, 31), (9, 31)]
    };
    for (n, stride) in widths {
        v.extend(top_halfword_patterns(o, n, stride));
        v.extend(code_point_patterns(o, n));
        v.extend(layout_patterns(o, n));
        let c = o.q(1500, 20000);
        v.extend(rand_patterns(o, n, c));
    }
    for n in [12usize, 13, 16, 29] {
        v.extend(layout_patterns(o, n));
        v.extend(rand_patterns(o, n, 200));
    }
    v
}

/// X1: all 256 values of the classifying byte at every width
pub fn last_byte_patterns(o: &mut Out) -> Vec<Vec<u8>> {
    let mut v = vec![];
    for n in [1usize, 2, 3, 4, 5, 6, 8] {
        for b in 0..256usize {
            for fill in 0..3 {
                let mut p = match fill {
                    0 => vec![0u8; 4 * n],
                    1 => vec![0xff; 4 * n],
                    _ => o.rng.bytes(4 * n),
                };
                p[4 * n - 1] = b as u8;
                v.push(p);
            }
        }
    }
    v
}

pub fn g_on_patterns(o: &mut Out, op: &str, pats: &[Vec<u8>], suffixes: &[&str]) {
    for b in pats {
        for ty in holders(b.len() / 4) {
            if suffixes.is_empty() {
                o.put(&format!("{}/{}@{}", op, ty, b.len() * 8), format!("{} {} {}", op, ty, hex(b)));
            } else {
                for s in suffixes {
                    o.put(&format!("{}-{}/{}@{}", op, s, ty, b.len() * 8), format!("{} {} {} {}", op, ty, hex(b), s));
                }
            }
        }
    }
}

// ---------------------------------------------------------------------------------------------
// grammar

pub const ALPHABET: [&str; 23] = ["0", "1", "9", "+", "-", ".", "e", "E", "i", "I", "n", "N", "f", "t", "y", "s", "S", "a", "(", ")", "x", " ", "é"];

/// X7: all strings up to `maxlen` symbols over the alphabet
pub fn g_strings(o: &mut Out, ty: &str, maxlen: usize, op_fmt: bool) {
    let mut idx = vec![0usize; 0];
    // length 0
    o.put(&format!("strings/{}", ty), format!("parse_str {} -", ty));
    for len in 1..=maxlen {
        idx.clear();
        idx.resize(len, 0);
        loop {
            let s: String = idx.iter().map(|&i| ALPHABET[i]).collect();
            o.put(&format!("strings/{}", ty), format!("parse_str {} {}", ty, tx(&s)));
            if op_fmt {
                o.put(&format!("strings-fmt/{}", ty), format!("parse_fmt {} - {} -", ty, tx(&s)));
            }
            let mut k = len;
            loop {
                if k == 0 {
                    break;
                }
                k -= 1;
                idx[k] += 1;
                if idx[k] < ALPHABET.len() {
                    break;
                }
                idx[k] = 0;
                if k == 0 {
                    k = usize::MAX;
                    break;
                }
            }
            if k == usize::MAX {
                break;
            }
        }
    }
}

pub const SEEDS: [&str; 40] = [
    "0", "-0", "+0", "123", "-123.456e7", "1.5", "1.50", "0.001", "1e5", "1E5", "1e+5", "1e-5", "12.34e-56", "+1.2E+3", "00.00e00", "9999999",
    "1234567890123456", "1.234567890123456789012345678901234e6144", "inf", "-inf", "+Inf", "INF", "infinity", "-Infinity", "INFINITY", "nan", "NaN", "-nan", "+NAN", "snan", "sNaN",
    "-snan", "nan(1)", "nan(123)", "snan(999999)", "-nan(0)", "nan()", "NAN(42)", "nan(0012)", "-sNaN(5)",
];

const MUT_BYTES: &[u8] = b"0159+-.eEiInNfFtTyYsSaA()xX _,\x00\x7f";

/// every ASCII byte: case-folding tricks (`b | 0x20`, `b & 0xdf`, `b ^ 0x20`) make unexpected bytes alias token characters
fn all_ascii() -> Vec<u8> {
    (0u8..0x80).collect()
}

/// single-byte substitutions / insertions / deletions of valid numerals
pub fn g_mutations(o: &mut Out, types: &[&str]) {
    for seed in SEEDS {
        let b = seed.as_bytes();
        let mut outs: Vec<Vec<u8>> = vec![b.to_vec()];
        let ascii = all_ascii();
        for i in 0..=b.len() {
            for &c in &ascii {
                let mut v = b.to_vec();
                v.insert(i, c);
                outs.push(v);
                if i < b.len() {
                    let mut v = b.to_vec();
                    v[i] = c;
                    outs.push(v);
                }
            }
            if i < b.len() {
                let mut v = b.to_vec();
                v.remove(i);
                outs.push(v);
                // multi-byte UTF-8 inserted
                let mut v = b.to_vec();
                for (k, x) in "é".bytes().enumerate() {
                    v.insert(i + k, x);
                }
                outs.push(v);
                let mut v = b.to_vec();
                for (k, x) in "１".bytes().enumerate() {
                    v.insert(i + k, x);
                }
                outs.push(v);
            }
        }
        for v in outs {
            for ty in types {
                o.put(&format!("mutation/{}", ty), format!("parse_str {} {}", ty, hex(&v)));
            }
        }
    }
}

/// C06 through the streaming entry point: a non-ASCII character whose low byte (or low 7 bits) is a token byte, substituted
/// into or inserted in a valid numeral and delivered character by character through `write_char` (and once through
/// `write_str`): a parser that narrows `char` to `u8` would read it as the token
pub fn g_nonascii_chars(o: &mut Out, types: &[&str]) {
    let tokens = b"0159+-.eEiInNfFtTyYsSaA()";
    for seed in SEEDS {
        let chars: Vec<char> = seed.chars().collect();
        for i in 0..=chars.len() {
            for &tb in tokens.iter() {
                for plane in [0x100u32, 0x200, 0x1_0000, 0x80] {
                    let Some(alias) = char::from_u32(plane + tb as u32) else { continue };
                    for subst in [true, false] {
                        if subst && i >= chars.len() {
                            continue;
                        }
                        // keep the set small: substitute only where the alias would make (or keep) a numeral
                        if subst && !chars[i].eq_ignore_ascii_case(&(tb as char)) && o.rng.below(4) != 0 {
                            continue;
                        }
                        if !subst && o.rng.below(6) != 0 {
                            continue;
                        }
                        let mut v = chars.clone();
                        if subst { v[i] = alias } else { v.insert(i, alias) }
                        let by_char: Vec<String> = v.iter().map(|c| format!("c{}", tx(&c.to_string()))).collect();
                        let whole: String = v.iter().collect();
                        for ty in types {
                            let cap = text_cap(ty).map_or("-".to_string(), |c| c.to_string());
                            o.put(&format!("nonascii-char/{}", ty), format!("parse_fmt {} {} {} -", ty, cap, by_char.join(",")));
                            if plane == 0x100 {
                                o.put(&format!("nonascii-str/{}", ty), format!("parse_fmt {} {} {} -", ty, cap, tx(&whole)));
                                o.put(&format!("nonascii-str/{}", ty), format!("parse_str {} {}", ty, tx(&whole)));
                            }
                        }
                    }
                }
            }
        }
    }
}

/// valid numerals whose *text* is longer than the streaming text buffer although the value fits the type (exponent padded
/// with zeros, explicit signs), through every string entry point: the borrowed-string entry points (`try_parse_str`,
/// `FromStr`, `TryFrom<&str>`) have no text capacity, the streaming one may only answer "buffer too small"
pub fn g_long_valid(o: &mut Out, types: &[&str]) {
    for ty in types {
        let capn = text_cap(ty).unwrap_or(128);
        let cap = text_cap(ty).map_or("-".to_string(), |c| c.to_string());
        for len in [capn - 1, capn, capn + 1, capn + 2, 2 * capn + 1, 300] {
            for (head, tail) in [("1e", "5"), ("-1.5E+", "12"), ("+12e-", "3"), ("0.01e", "")] {
                if len <= head.len() + tail.len() {
                    continue;
                }
                let t = format!("{}{}{}", head, "0".repeat(len - head.len() - tail.len()), tail);
                for op in ["parse_str", "parse_str@fromstr", "parse_str@tryfrom"] {
                    writeln!(o.w, "long-valid/{}\t{} {} {}", ty, op, ty, tx(&t)).unwrap();
                }
                o.put(&format!("long-valid-fmt/{}", ty), format!("parse_fmt {} {} {} -", ty, cap, tx(&t)));
                // split right after the exponent marker / its sign: a write that starts with a long run of exponent digits
                o.put(&format!("long-valid-fmt/{}", ty), format!("parse_fmt {} {} {},{} -", ty, cap, tx(head), tx(&t[head.len()..])));
            }
        }
    }
}

/// numerals of a hundred thousand digits and more: the needed width an overflow error names passes 64 KiB (and its
/// arithmetic any 16-bit quantity); through the borrowed-string entry points of the bounded types
pub fn g_huge_digits(o: &mut Out, types: &[&str]) {
    for ty in types {
        for (i, d) in [70_000usize, 147_445, 147_456, 150_000, 300_000].iter().enumerate() {
            let digit = ["7", "1", "9", "3", "5"][i];
            let t = digit.repeat(*d);
            let op = ["parse_str", "parse_str@fromstr", "parse_str@tryfrom"][i % 3];
            writeln!(o.w, "huge-digits/{}\t{} {} {}", ty, op, ty, tx(&t)).unwrap();
        }
        let t = format!("-0.{}e-5", "4".repeat(147_460));
        writeln!(o.w, "huge-digits/{}\tparse_str {} {}", ty, ty, tx(&t)).unwrap();
    }
}

/// junk around / inside numerals delivered fragment by fragment by a `Display` that ignores write errors: no value may come out
pub fn g_swallow_invalid(o: &mut Out, types: &[&str]) {
    let xs = ["$12.50", "-x1", " 1", "x", "1x", "x1", "1x2", "1.-5", "nan(1)2", "infx", "+-1", "1e+x5", "12é", "é1", "1 2", "-", "1e", "nan(", "0x10", "--1", "i1", "n7", "s9",
        // two offending bytes: the error must stay the first one however long the source keeps writing
        "1x2y", "1.5x3y", "infxy", "nan(1x)y", "1e5x+", "12$34%", "-7.z.w", "snanq(r", "9e-3!?", "infinity;:"];
    for s in xs {
        let chars: Vec<String> = s.chars().map(|c| tx(&c.to_string())).collect();
        for ty in types {
            let cap = text_cap(ty).map_or("-".to_string(), |c| c.to_string());
            o.put(&format!("swallow-invalid/{}", ty), format!("parse_fmt {} {} {} swallow", ty, cap, chars.join(",")));
            o.put(&format!("swallow-invalid/{}", ty), format!("parse_fmt {} {} {} swallow", ty, cap, tx(s)));
            if chars.len() >= 2 {
                o.put(&format!("swallow-invalid/{}", ty), format!("parse_fmt {} {} {},{} swallow", ty, cap, chars[0], chars[1..].iter().map(|c| c.as_str()).collect::<Vec<_>>().join("")));
            }
            if chars.len() >= 4 {
                let h = chars.len() / 2;
                o.put(&format!("swallow-invalid/{}", ty), format!("parse_fmt {} {} {},{} swallow", ty, cap, chars[..h].join(""), chars[h..].join("")));
            }
        }
    }
}

/// numerals longer than the text buffer from a source that ignores the failed write and goes on (and returns Ok): the
/// answer must be an error, never the value of the part that fitted
pub fn g_swallow_long(o: &mut Out, types: &[&str]) {
    for ty in types {
        let Some(capn) = text_cap(ty) else { continue };
        let cap = capn.to_string();
        let mut texts: Vec<String> = vec![];
        for extra in [1usize, 2, 7, capn] {
            texts.push("1234567".repeat((capn + extra) / 7 + 1)[..capn + extra].to_string());
            texts.push(format!("9e{}1", "0".repeat(capn + extra - 3)));
            texts.push(format!("-0.{}", "5".repeat(capn + extra - 3)));
            texts.push(format!("{}e-3", "8".repeat(capn + extra - 3)));
        }
        for t in texts {
            let h = t.len() / 2;
            for frs in [tx(&t), format!("{},{}", tx(&t[..h]), tx(&t[h..])), format!("{},{},{}", tx(&t[..7]), tx(&t[7..capn - 1]), tx(&t[capn - 1..]))] {
                o.put(&format!("swallow-long/{}", ty), format!("parse_fmt {} {} {} swallow", ty, cap, frs));
            }
            let bytes: Vec<String> = t.bytes().map(|b| format!("{:02x}", b)).collect();
            o.put(&format!("swallow-long/{}", ty), format!("parse_fmt {} {} {} swallow", ty, cap, bytes.join(",")));
            o.put(&format!("swallow-long-str/{}", ty), format!("parse_str {} {}", ty, tx(&t)));
        }
    }
}

/// digits after a closed payload, second points, signs inside: longer targeted invalid strings
pub fn g_targeted_invalid(o: &mut Out) {
    let xs = [
        "nan(1)2", "nan(1)0", "nan()0", "snan(12)3", "nan(1))", "nan((1)", "nan(1", "nan(", "nan(1e2)", "nan(1.0)", "nan(-1)", "nan(+1)", "1.-5", "1.+5", "0.+0", "0.-0", "1.2.3", "1..2", "1e5e5", "1e5.0", "1e", "1e+", "1e-", "e5", ".5", "5.", "5.e3", "-.5", "+-1", "-+1", "--1", "1-", "1+", "1e5-", "1e5+", "1e+-5", "1 ", " 1", "1 2", "1_000", "0x10", "inf ", "infi", "infin", "infini", "infinit", "infinityy", "inff", "in", "i", "n", "na", "nann", "s", "sn", "sna", "snann", "ssnan", "sinf", "-", "+", "", "nan(1)(2)", "nan1", "inf1", "1inf", "1nan", "nan.", "inf.", "infe5", "１２", "1é", "é",
        // more than one sign in front of a keyword (the sub-parsers have sign arms of their own)
        "--inf", "+-inf", "-+infinity", "++inf", "--nan", "+-NaN", "-+snan", "--sNaN(123)", "+-nan(1)", "-+-1", "- inf", "-sinf",
    ];
    for s in xs {
        for ty in TYPES {
            o.put(&format!("targeted-invalid/{}", ty), format!("parse_str {} {}", ty, tx(s)));
            writeln!(o.w, "targeted-invalid@trait/{}\tparse_str@fromstr {} {}", ty, ty, tx(s)).unwrap();
            writeln!(o.w, "targeted-invalid@trait/{}\tparse_str@tryfrom {} {}", ty, ty, tx(s)).unwrap();
            o.put(&format!("targeted-invalid-fmt/{}", ty), format!("parse_fmt {} - {} -", ty, tx(s)));
        }
    }
}

/// a special-value numeral through the string entry point and through the streaming one (whole, and split in two at a
/// random position: the streaming text buffers keep their own ranges for the payload digits)
fn put_special(o: &mut Out, ty: &str, stratum: &str, text: &str) {
    o.put(&format!("{}/{}", stratum, ty), format!("parse_str {} {}", ty, tx(text)));
    let cap = text_cap(ty).map_or("-".to_string(), |c| c.to_string());
    o.put(&format!("{}-fmt/{}", stratum, ty), format!("parse_fmt {} {} {} -", ty, cap, tx(text)));
    if text.len() >= 2 {
        let k = 1 + o.rng.below(text.len() as u64 - 1) as usize;
        o.put(&format!("{}-fmt/{}", stratum, ty), format!("parse_fmt {} {} {},{} -", ty, cap, tx(&text[..k]), tx(&text[k..])));
    }
}

/// C09: every letter-case variant x sign x payload shapes
pub fn g_specials(o: &mut Out) {
    fn cases(word: &str, limit: usize, rng: &mut Rng) -> Vec<String> {
        let n = word.len();
        let total = 1usize << n;
        let mut v = vec![];
        if total <= limit {
            for m in 0..total {
                v.push(word.chars().enumerate().map(|(i, c)| if m >> i & 1 == 1 { c.to_ascii_uppercase() } else { c }).collect());
            }
        } else {
            for _ in 0..limit {
                let m = rng.next() as usize;
                v.push(word.chars().enumerate().map(|(i, c)| if m >> i & 1 == 1 { c.to_ascii_uppercase() } else { c }).collect());
            }
        }
        v
    }
    for ty in TYPES {
        for sign in ["", "-", "+"] {
            for w in ["inf", "infinity", "nan", "snan"] {
                for c in cases(w, 64, &mut o.rng) {
                    put_special(o, ty, "special-case", &format!("{}{}", sign, c));
                }
            }
            // payloads
            let pmax = match cap_n(ty) {
                Some(c) => Fmt { n: c }.p() + 3,
                None => 70,
            };
            for w in ["nan", "snan", "NaN", "SNAN"] {
                for len in 0..=pmax {
                    for style in 0..4 {
                        let ds: String = (0..len)
                            .map(|i| match style {
                                0 => '9',
                                1 => '0',
                                2 => if i == 0 { '0' } else { (b'0' + o.rng.below(10) as u8) as char },
                                _ => (b'0' + o.rng.below(10) as u8) as char,
                            })
                            .collect();
                        put_special(o, ty, "special-payload", &format!("{}{}({})", sign, w, ds));
                    }
                }
            }
        }
    }
}

// ---------------------------------------------------------------------------------------------
// streaming

fn fragmentations(o: &mut Out, ty: &str, cap: &str, text: &str, faults: bool) {
    let chars: Vec<char> = text.chars().collect();
    let n = chars.len();
    // the string side of the comparison: C14 is about the two entry points agreeing, so both are run
    o.put(&format!("frag-str/{}", ty), format!("parse_str {} {}", ty, tx(text)));
    if n == 0 {
        o.put(&format!("frag/{}", ty), format!("parse_fmt {} {} . -", ty, cap));
        o.put(&format!("frag/{}", ty), format!("parse_fmt {} {} - -", ty, cap));
        return;
    }
    let total = 1usize << (n - 1);
    for m in 0..total {
        let mut frs: Vec<String> = vec![];
        let mut cur = String::new();
        for (i, c) in chars.iter().enumerate() {
            cur.push(*c);
            if i == n - 1 || m >> i & 1 == 1 {
                frs.push(std::mem::take(&mut cur));
            }
        }
        let enc = |frs: &Vec<String>, rng: &mut Rng, empties: bool| -> String {
            let mut parts: Vec<String> = vec![];
            for f in frs {
                if empties && rng.chance(1, 3) {
                    parts.push("-".into());
                }
                if f.chars().count() == 1 && rng.chance(1, 3) {
                    parts.push(format!("c{}", tx(f)));
                } else {
                    parts.push(tx(f));
                }
            }
            if empties && rng.chance(1, 3) {
                parts.push("-".into());
            }
            parts.join(",")
        };
        let plain = enc(&frs, &mut o.rng, false);
        o.put(&format!("frag/{}", ty), format!("parse_fmt {} {} {} -", ty, cap, plain));
        if !text.is_ascii() {
            // every one-character fragment through write_char: a char above U+00FF must not be truncated to its low byte
            let parts: Vec<String> = frs.iter().map(|f| if f.chars().count() == 1 { format!("c{}", tx(f)) } else { tx(f) }).collect();
            o.put(&format!("frag-char/{}", ty), format!("parse_fmt {} {} {} -", ty, cap, parts.join(",")));
        }
        if m % 3 == 0 {
            let e = enc(&frs, &mut o.rng, true);
            o.put(&format!("frag-empty/{}", ty), format!("parse_fmt {} {} {} -", ty, cap, e));
        }
        if faults && (m % 5 == 0 || n <= 6) {
            // a source failure after each fragment of short fragmentations, one random place in long ones
            let ks: Vec<u64> = if frs.len() <= 6 { (0..=frs.len() as u64).collect() } else { vec![o.rng.below(frs.len() as u64 + 1)] };
            for k in ks {
                o.put(&format!("frag-fail/{}", ty), format!("parse_fmt {} {} {} fail:{}", ty, cap, plain, k));
            }
            o.put(&format!("frag-swallow/{}", ty), format!("parse_fmt {} {} {} swallow", ty, cap, plain));
        }
    }
}

pub const FRAG_TEXTS: [&str; 58] = [
    "00000001", "-00000001", "01234567", "00.00001", "nan(007)", "0000000000000017",
    "ı", "1ť5", "ŉnf", "ĭ1", "1Į5", "ŮaN", "1ī", "２",
    "0", "-1", "+12", "1.5", "-12.34e-5", "1e+5", "1E5", "00.10e01", "123456789012", "inf", "-Infinity", "nan", "-sNaN(12)", "nan()", "snan(0)",
    "x", "1x", "x2", "1x2", "1.-5", "1.+5", "1..2", "1e5e", "e5", "1e", "-", "+-1", "", "nan(1)2", "infx", "in", "sna", "nan(", "1.2.3", "12é", "é1", " 1", "1 ", "-.5", "5.", "+", "1e+", "nan(12", "9.99e+99",
];

pub fn g_frag(o: &mut Out, types: &[&str]) {
    if types.contains(&"big") {
        // no text capacity at all for the growable buffer: texts beyond 2^16 bytes, whole and in two fragments
        for len in [65535usize, 65536, 70001] {
            let digits = "7".repeat(len);
            o.put("frag-long/big", format!("parse_fmt big - {} -", tx(&digits)));
            let padded = format!("15e-{}3", "0".repeat(len));
            o.put("frag-long/big", format!("parse_fmt big - {},{} -", tx(&padded[..len / 2]), tx(&padded[len / 2..])));
            o.put("frag-long-str/big", format!("parse_str big {}", tx(&padded)));
        }
    }
    for ty in types {
        let cap = text_cap(ty).map_or("-".to_string(), |c| c.to_string());
        for t in FRAG_TEXTS {
            if t.chars().count() > 10 && !o.thorough && *ty != "dyn" {
                continue;
            }
            fragmentations(o, ty, &cap, t, true);
        }
        // around the text capacity, with and without '+'
        if let Some(c) = text_cap(ty) {
            for len in [c - 2, c - 1, c, c + 1, c + 2] {
                for plus in [false, true] {
                    for body in 0..3 {
                        let mut s = String::new();
                        if plus {
                            s.push('+');
                        }
                        let rest = len - s.len();
                        match body {
                            0 => s.push_str(&"0".repeat(rest)),
                            1 => {
                                s.push_str("0.");
                                s.push_str(&"0".repeat(rest - 6));
                                s.push_str("1e+5");
                            }
                            _ => {
                                s.push_str(&"0".repeat(rest - 4));
                                s.push_str("1e-5");
                            }
                        }
                        for split in [0usize, 1, s.len() / 2, s.len() - 1] {
                            let frs = if split == 0 { tx(&s) } else { format!("{},{}", tx(&s[..split]), tx(&s[split..])) };
                            o.put(&format!("frag-cap/{}", ty), format!("parse_fmt {} {} {} -", ty, c, frs));
                        }
                        // byte at a time
                        let frs: Vec<String> = s.chars().map(|ch| tx(&ch.to_string())).collect();
                        o.put(&format!("frag-cap/{}", ty), format!("parse_fmt {} {} {} -", ty, c, frs.join(",")));
                    }
                }
            }
        }
        // random fragmentations of random numerals and mutated texts
        let cnt = o.q(1500, 40000);
        for i in 0..cnt {
            let n = rand_num(&mut o.rng, ty);
            let mut s = spell(&mut o.rng, &n);
            if i % 4 == 0 {
                let mut b = s.into_bytes();
                let k = o.rng.below(b.len() as u64) as usize;
                b[k] = *o.rng.pick(MUT_BYTES);
                b.retain(|x| *x != 0);
                s = String::from_utf8(b).unwrap();
                if s.is_empty() {
                    s = "x".into();
                }
            }
            let chars: Vec<char> = s.chars().collect();
            let mut parts: Vec<String> = vec![];
            let mut cur = String::new();
            let density = o.rng.range(1, 6) as u64;
            for c in chars {
                cur.push(c);
                if o.rng.chance(1, density) {
                    parts.push(tx(&cur));
                    cur.clear();
                    if o.rng.chance(1, 8) {
                        parts.push("-".into());
                    }
                }
            }
            if !cur.is_empty() {
                parts.push(tx(&cur));
            }
            let cap = text_cap(ty).map_or("-".to_string(), |c| c.to_string());
            let fault = match o.rng.below(6) {
                0 => format!("fail:{}", o.rng.below(parts.len() as u64 + 1)),
                1 => "swallow".to_string(),
                _ => "-".to_string(),
            };
            o.put(&format!("frag-random/{}", ty), format!("parse_fmt {} {} {} {}", ty, cap, parts.join(","), fault));
        }
    }
    if o.thorough {
        // long texts through the unbounded buffer
        for len in [1000usize, 10000, 50000] {
            let s = format!("{}e-7", "123456789".repeat(len / 9));
            let parts: Vec<String> = s.as_bytes().chunks(997).map(hex).collect();
            o.put("frag-long/big", format!("parse_fmt big - {} -", parts.join(",")));
        }
    }
}

// ---------------------------------------------------------------------------------------------
// integers

pub const INT_TYPES: [&str; 10] = ["i8", "i16", "i32", "i64", "i128", "u8", "u16", "u32", "u64", "u128"];

fn int_bounds(ity: &str) -> (i128, u128) {
    // (min as i128, max as u128)
    let bits: u32 = ity[1..].parse().unwrap();
    if ity.starts_with('i') {
        (if bits == 128 { i128::MIN } else { -(1i128 << (bits - 1)) }, (1u128 << (bits - 1)) - 1)
    } else {
        (0, if bits == 128 { u128::MAX } else { (1u128 << bits) - 1 })
    }
}

fn interesting_ints(o: &mut Out, ity: &str, random: usize) -> Vec<String> {
    let (min, max) = int_bounds(ity);
    let signed = ity.starts_with('i');
    let mut v: Vec<String> = vec![];
    let mut push = |x: i128, big: Option<u128>| {
        match big {
            Some(u) => {
                if u <= max {
                    v.push(u.to_string())
                }
            }
            None => {
                if x >= min && (x < 0 || (x as u128) <= max) {
                    v.push(x.to_string())
                }
            }
        }
    };
    let mut p10: u128 = 1;
    for _ in 0..39 {
        for d in [0i128, 1, -1] {
            let u = (p10 as i128).wrapping_add(d);
            if p10 <= i128::MAX as u128 {
                push(u, None);
                if signed {
                    push(-u, None);
                }
            } else {
                push(0, Some(p10.wrapping_add(d as u128)));
            }
        }
        p10 = p10.saturating_mul(10);
    }
    for j in 0..128u32 {
        let u = 1u128 << j;
        push(0, Some(u));
        push(0, Some(u - 1));
        if signed && j < 127 {
            push(-(u as i128), None);
        }
    }
    push(min, None);
    push(min + 1, None);
    push(0, Some(max));
    push(0, Some(max - 1));
    push(0, None);
    let bits: u32 = ity[1..].parse().unwrap();
    for _ in 0..random {
        let width = o.rng.range(1, bits as i64) as u32;
        let raw = ((o.rng.next() as u128) << 64 | o.rng.next() as u128) >> (128 - width);
        if signed && o.rng.chance(1, 2) {
            let x = -(raw as i128);
            if x >= min {
                v.push(x.to_string());
            }
        } else if raw <= max {
            v.push(raw.to_string());
        }
    }
    v
}

/// X9 + stratified wider integers
pub fn g_from_int(o: &mut Out) {
    g_from_int_types(o, &TYPES);
}

pub fn g_from_int_types(o: &mut Out, types: &[&str]) {
    for ty in types.iter().copied() {
        o.put(&format!("zero/{}", ty), format!("zero {}", ty));
        for ity in ["i8", "u8"] {
            let (min, max) = int_bounds(ity);
            for v in min..=(max as i128) {
                o.put(&format!("from_int-{}-all/{}", ity, ty), format!("from_int {} {} {}", ty, ity, v));
            }
        }
        for ity in ["i16", "u16"] {
            let (min, max) = int_bounds(ity);
            let step = if o.thorough || ty == "b32" || ty == "dyn" { 1 } else { 37 };
            let mut v = min;
            while v <= max as i128 {
                o.put(&format!("from_int-{}/{}", ity, ty), format!("from_int {} {} {}", ty, ity, v));
                v += step;
            }
        }
        for ity in ["i32", "i64", "i128", "u32", "u64", "u128"] {
            let c = o.q(800, 100000);
            for v in interesting_ints(o, ity, c) {
                o.put(&format!("from_int-{}/{}", ity, ty), format!("from_int {} {} {}", ty, ity, v));
            }
        }
    }
}

/// numerals m·10^j around every target's MIN/MAX in every cohort form that fits, zeros with any exponent
pub fn cohort_patterns(o: &mut Out) -> Vec<Vec<u8>> {
    let mut v = vec![];
    for n in [1usize, 2, 3, 4, 5, 6] {
        let f = Fmt { n };
        let p = f.p();
        let mut vals: Vec<String> = vec!["0".into(), "1".into(), "17".into(), "170".into(), "100".into(), "255".into(), "256".into(), "127".into(), "128".into(), "129".into()];
        for ity in INT_TYPES {
            let (min, max) = int_bounds(ity);
            for d in [0i128, 1, -1, 2] {
                vals.push(max.wrapping_add(d as u128).to_string());
                if min < 0 {
                    vals.push(min.unsigned_abs().wrapping_add(d as u128).to_string());
                }
            }
        }
        for val in vals {
            // strip trailing zeros to find the shortest coefficient, then every cohort member
            let trimmed = val.trim_end_matches('0');
            let (coef, base_e) = if trimmed.is_empty() { ("0".to_string(), 0i64) } else { (trimmed.to_string(), (val.len() - trimmed.len()) as i64) };
            for pad in 0..=(p.saturating_sub(coef.len())) {
                let digits = format!("{}{}", coef, "0".repeat(pad));
                if digits.len() > p {
                    break;
                }
                let e = base_e - pad as i64;
                if e < f.qmin_i() || e > f.qmax_i() {
                    continue;
                }
                if pad > 6 && pad % 5 != 0 && !o.thorough {
                    continue;
                }
                for neg in [false, true] {
                    v.push(enc_fin(f, neg, digits.as_bytes(), &BigInt::from(e)));
                }
                // and a neighbour that is not an integer
                if pad >= 1 {
                    let mut d2 = digits.clone().into_bytes();
                    let l = d2.len();
                    d2[l - 1] = b'1';
                    v.push(enc_fin(f, false, &d2, &BigInt::from(e)));
                }
            }
        }
        // small coefficients with exponents around the number of digits of every target's limits:
        // 1e2/3e2 (u8), 3e4/7e4 (16 bit), … , 3e38/4e38 (u128), 1e39, 1e40, and far beyond
        for coef in ["1", "2", "3", "4", "9", "17", "34", "18", "25", "65", "42", "12"] {
            for e in [1i64, 2, 3, 4, 5, 8, 9, 10, 17, 18, 19, 20, 36, 37, 38, 39, 40, 41, 57, 77, f.qmax_i()] {
                if e > f.qmax_i() {
                    continue;
                }
                for neg in [false, true] {
                    v.push(enc_fin(f, neg, coef.as_bytes(), &BigInt::from(e)));
                }
            }
        }
        // zeros with every kind of exponent
        let mut es: Vec<i64> = vec![f.qmin_i(), f.qmin_i() + 1, -(p as i64) - 1, -(p as i64), -(p as i64) + 1, -1, 0, 1, 38, 39, 40, f.qmax_i() - 1, f.qmax_i()];
        for _ in 0..20 {
            es.push(o.rng.range(f.qmin_i(), f.qmax_i()));
        }
        for e in es {
            for neg in [false, true] {
                v.push(enc_fin(f, neg, b"0", &BigInt::from(e)));
            }
        }
    }
    // zeros and small values in a very wide format, exponent beyond i32
    let f = Fmt { n: 20 };
    for e in ["5000000000", "-5000000000", "2147483648", "-2147483649", "0"] {
        let q: BigInt = e.parse().unwrap();
        v.push(enc_fin(f, false, b"0", &q));
        v.push(enc_fin(f, true, b"1", &q));
    }
    v
}

// ---------------------------------------------------------------------------------------------
// floats

fn float_bits(o: &mut Out, fty: &str) -> Vec<u64> {
    let (ebits, mbits) = if fty == "f32" { (8u32, 23u32) } else { (11, 52) };
    let mut v: Vec<u64> = vec![];
    let mmask = (1u64 << mbits) - 1;
    let mants = |rng: &mut Rng, k: usize| -> Vec<u64> {
        let mut m = vec![0, 1, mmask, mmask - 1, 0x5555_5555_5555_5555 & mmask, 1u64 << (mbits - 1)];
        for _ in 0..k {
            m.push(rng.next() & mmask);
            // short mantissas give short decimal expansions
            m.push((rng.next() & mmask) & !((1u64 << rng.below(mbits as u64)) - 1));
        }
        m
    };
    let per = o.q(4, 60);
    for e in 0..(1u64 << ebits) {
        for m in mants(&mut o.rng, per) {
            for s in [0u64, 1] {
                v.push(s << (ebits + mbits) | e << mbits | m);
            }
        }
    }
    // powers of ten and two and their neighbours, ryu's notation switch points
    let mut specials: Vec<f64> = vec![0.0, 1.0, 0.1, 0.5, 1.5, 123456.0, 1e-5, 1e-4, 1e-3, 1e15, 1e16, 1e17, 1e21, 1e22, 9007199254740992.0, 9007199254740993.0, 1e12, 1e13, 1e11, 1e10, 16777216.0, 16777217.0, 123456789012.0, 0.3, 2.5e-5, 1.0e-7];
    for k in -330i32..=310 {
        specials.push(format!("1e{}", k).parse().unwrap());
        specials.push(format!("9.999999e{}", k).parse().unwrap());
    }
    for x in specials {
        for d in [0i64, 1, -1] {
            if fty == "f32" {
                let b = (x as f32).to_bits() as i64 + d;
                v.push(b as u32 as u64);
                v.push((b as u32 | 0x8000_0000) as u64);
            } else {
                let b = x.to_bits() as i64 + d;
                v.push(b as u64);
                v.push(b as u64 | 0x8000_0000_0000_0000);
            }
        }
    }
    for _ in 0..o.q(3000, 400000) {
        v.push(if fty == "f32" { o.rng.next() as u32 as u64 } else { o.rng.next() });
    }
    v
}

pub fn g_from_float(o: &mut Out, types: &[&str]) {
    for fty in ["f32", "f64"] {
        let bits = float_bits(o, fty);
        for ty in types {
            for &b in &bits {
                let r = ryu_text(fty, b);
                let bh = if fty == "f32" { format!("{:08x}", b) } else { format!("{:016x}", b) };
                o.put(&format!("from_float-{}/{}", fty, ty), format!("from_float {} {} {} {}", ty, fty, bh, tx(&r)));
            }
        }
    }
}

/// C17 for integers and floats: the `TryFrom` impls report a refusal as an error whose text names widths.
/// Integers of every digit count (10^k - 1, 10^k, 10^k + 1, random) and floats whose shortest digits do or do not fit,
/// through the trait impls of the bounded types (the inherent `from_*` methods return `Option` and carry no text).
pub fn g_conv_errors(o: &mut Out) {
    let p10 = |k: u32| -> u128 { 10u128.pow(k) };
    for ty in ["b32", "b64", "b128", "dyn"] {
        for ity in ["i32", "u32", "i64", "u64", "i128", "u128"] {
            let (min, max) = int_bounds(ity);
            let mut vals: Vec<String> = vec![];
            for k in 1..=38u32 {
                for v in [p10(k) - 1, p10(k), p10(k) + 1, p10(k) + (o.rng.next() as u128 * o.rng.next() as u128) % p10(k)] {
                    if v <= max {
                        vals.push(v.to_string());
                    }
                    if min < 0 && v <= min.unsigned_abs() {
                        vals.push(format!("-{}", v));
                    }
                }
            }
            vals.push(max.to_string());
            vals.push(min.to_string());
            for v in vals {
                writeln!(o.w, "conv-err-int@trait/{}\tfrom_int@t {} {} {}", ty, ty, ity, v).unwrap();
            }
        }
        for fty in ["f32", "f64"] {
            let mut bits: Vec<u64> = vec![];
            for _ in 0..o.q(300, 5000) {
                bits.push(if fty == "f32" { o.rng.next() & 0xffff_ffff } else { o.rng.next() });
            }
            // short decimals scaled over the whole exponent range: few digits, wide exponents
            for m in [1.0f64, 1.5, 12345678.0, 1234567.0, 9999999.0, 1234567890123456.0, 12345678901234567.0, 0.1, 0.3] {
                for e in [-320i32, -300, -101, -95, -45, -38, -7, -1, 0, 1, 7, 15, 16, 17, 20, 21, 22, 38, 90, 96, 97, 300, 308] {
                    let f = m * 10f64.powi(e);
                    bits.push(if fty == "f32" { (f as f32).to_bits() as u64 } else { f.to_bits() });
                }
            }
            for b in bits {
                let r = ryu_text(fty, b);
                if r.is_empty() {
                    continue;
                }
                let bh = if fty == "f32" { format!("{:08x}", b) } else { format!("{:016x}", b) };
                writeln!(o.w, "conv-err-float@trait/{}\tfrom_float@t {} {} {} {}", ty, ty, fty, bh, tx(&r)).unwrap();
            }
        }
    }
}

/// decimals that are exact ties / near-ties between adjacent floats, thresholds, scratch-buffer edges
pub fn g_to_float_texts(o: &mut Out) -> Vec<String> {
    let mut v: Vec<String> = vec![];
    // exact halfway points between adjacent f32 values are exactly representable in f64: print them exactly
    for _ in 0..o.q(300, 20000) {
        let b = (o.rng.next() as u32) & 0x7f7f_ffff;
        let lo = f32::from_bits(b) as f64;
        let hi = f32::from_bits(b + 1) as f64;
        if !hi.is_finite() {
            continue;
        }
        let mid = (lo + hi) / 2.0;
        let s = format!("{:e}", mid);
        v.push(s.clone());
        // nudge the last digit of the coefficient
        if let Some(epos) = s.find('e') {
            let (c, e) = s.split_at(epos);
            v.push(format!("{}1{}", c, e));
            if c.len() > 2 {
                let mut cb = c.as_bytes().to_vec();
                let l = cb.len();
                if cb[l - 1] > b'0' && cb[l - 1] <= b'9' {
                    cb[l - 1] -= 1;
                    v.push(format!("{}9{}", String::from_utf8(cb).unwrap(), e));
                }
            }
        }
    }
    // overflow / underflow thresholds
    for s in [
        "3.4028235e38", "3.4028236e38", "3.40282357e38", "3.4028235677973366e38", "3.40282356779733661e38", "3.4028234e38", "1.7976931348623157e308", "1.7976931348623158e308",
        "1.797693134862315807e308", "1.7976931348623159e308", "1e39", "1e309", "9.9e38", "4.9e-324", "2.4703282292062327e-324", "2.4703282292062328e-324", "2.5e-324", "1e-400",
        "1.4e-45", "7.0064923216240853e-46", "7.0064923216240854e-46", "7e-46", "1e-46", "2.2250738585072014e-308", "2.2250738585072011e-308", "1.1754944e-38", "1.17549435e-38",
        "0", "-0", "0e5", "0e-5", "0.000", "1", "-1", "0.1", "0.5", "16777217", "9007199254740993", "9007199254740992", "12345678901234567", "123456789012345678", "1e22", "1e23",
        "8.5e37", "1.5e300", "100000000000000000000", "0.000000000000000000001",
    ] {
        v.push(s.to_string());
    }
    // scratch-buffer edges: sign x digit count x exponent-text length
    for neg in ["", "-"] {
        for d in 1..=40usize {
            for e in ["0", "9", "-9", "38", "-45", "300", "-323", "-324", "6111", "-6176", "-9999", "-10000", "24534", "-24617"] {
                let digits: String = (0..d).map(|i| if i == 0 { '1' } else { (b'0' + (i % 10) as u8) as char }).collect();
                v.push(format!("{}{}e{}", neg, digits, e));
            }
        }
    }
    v
}

// ---------------------------------------------------------------------------------------------
// bytes

pub fn g_bytes(o: &mut Out) {
    for n in [1usize, 2, 4] {
        let ty = ["", "b32", "b64", "", "b128"][n];
        let len = 4 * n;
        let mut pats: Vec<Vec<u8>> = vec![(0..len as u8).collect(), (0..len as u8).rev().collect(), vec![0; len], vec![0xff; len]];
        for i in 0..len {
            let mut u = vec![0u8; len];
            u[i] = 0xa5;
            pats.push(u);
            let mut u = vec![0xffu8; len];
            u[i] = 0x5a;
            pats.push(u);
        }
        for _ in 0..o.q(3000, 200000) {
            pats.push(o.rng.bytes(len));
        }
        for p in pats {
            o.put(&format!("bytes/{}", ty), format!("bytes {} {}", ty, hex(&p)));
        }
    }
    for ty in ["dyn", "big"] {
        let mut lens: Vec<usize> = (0..=64).collect();
        lens.extend([100, 1000, 1001, 1002, 1003, 4096]);
        // lengths around 64 KiB, valid and invalid (the figures an error names must not be narrowed)
        lens.extend([65533, 65535, 65536, 65537, 65540]);
        if ty == "big" {
            // "unbounded": lengths far beyond anything else in the run (1 MiB + 4, 4 MiB + 4)
            lens.extend([1048576, 1048577, 1048580]);
        }
        // "unbounded for BigBitstring": half a gigabyte and its neighbours, by length (2^29 bytes = 2^32 bits: a width kept
        // in a 32-bit quantity wraps here); the bounded type must refuse the same lengths with the right figures
        for len in [536870912usize, 536870916, 536870913] {
            if ty == "big" || len == 536870912 {
                o.put(&format!("try_le-fill/{}", ty), format!("try_le_fill {} {} 00", ty, len));
            }
        }
        for len in [0usize, 3, 4, 20, 24, 65536] {
            o.put(&format!("try_le-fill/{}", ty), format!("try_le_fill {} {} a5", ty, len));
        }
        for len in lens {
            for k in 0..3 {
                let b = match k {
                    0 => (0..len).map(|i| i as u8).collect::<Vec<u8>>(),
                    1 => vec![0xff; len],
                    _ => o.rng.bytes(len),
                };
                o.put(&format!("try_le/{}", ty), format!("try_le {} {}", ty, hex(&b)));
                if len > 0 && len % 4 == 0 && ((ty == "big" && len <= 4096) || len <= 20) {
                    o.put(&format!("bytes/{}", ty), format!("bytes {} {}", ty, hex(&b)));
                }
            }
        }
    }
}

/// numerals of maximal canonical length (sign, p digits, point, e, sign, largest exponent) through try_parse:
/// the text buffer must be large enough for every in-range numeral written without redundant characters
pub fn g_maxlen_fmt(o: &mut Out, types: &[&str]) {
    for ty in types {
        let Some(capn) = cap_n(ty) else { continue };
        let cap = text_cap(ty).map_or("-".to_string(), |c| c.to_string());
        for n in 1..=capn {
            if type_n(ty).is_some() && n != capn {
                continue;
            }
            let f = Fmt { n };
            let p = f.p();
            for neg in ["-", ""] {
                for fl in [0usize, 1, p / 2, p - 1] {
                    for (q, digit) in [(f.qmin_i(), '1'), (f.qmin_i(), '9'), (f.qmax_i(), '9')] {
                        let digits: String = std::iter::repeat(digit).take(p).collect();
                        let x = q + fl as i64;
                        let s = if fl == 0 {
                            format!("{}{}e{}", neg, digits, x)
                        } else {
                            format!("{}{}.{}e{}", neg, &digits[..p - fl], &digits[p - fl..], x)
                        };
                        o.put(&format!("maxlen-fmt/{}", ty), format!("parse_fmt {} {} {} -", ty, cap, tx(&s)));
                        // and split in two
                        let k = s.len() / 2;
                        o.put(&format!("maxlen-fmt/{}", ty), format!("parse_fmt {} {} {},{} -", ty, cap, tx(&s[..k]), tx(&s[k..])));
                    }
                }
            }
        }
    }
}

/// every component of a numeral (sign, digit, point, `e`, exponent sign, exponent digit, keyword letter, bracket) placed at
/// the last byte of the text buffer, one before and one after it: the capacity test must come before every store
pub fn g_edge_fill(o: &mut Out, types: &[&str]) {
    for ty in types {
        let Some(capn) = text_cap(ty) else { continue };
        let cap = capn.to_string();
        // (head, filler digit, tail): the filler is repeated so that the tail starts at a chosen offset
        let shapes: [(&str, &str); 14] = [
            ("", "e-5"), ("", "e+5"), ("", "e5"), ("", "E-05"), ("-", "e-5"), ("+", ".5"), ("", ".5e-3"), ("-", ".25E+7"), ("1.", "e-2"), ("0.", ""),
            ("nan(", ")"), ("-snan(", ")"), ("1e", ""), ("1e-", ""),
        ];
        for (head, tail) in shapes {
            for at in [capn - 2, capn - 1, capn, capn + 1] {
                if at <= head.len() {
                    continue;
                }
                let t = format!("{}{}{}", head, "3".repeat(at - head.len()), tail);
                o.put(&format!("edge-fill/{}", ty), format!("parse_fmt {} {} {} -", ty, cap, tx(&t)));
                // the tail in its own fragment, and byte by byte
                if !tail.is_empty() {
                    o.put(&format!("edge-fill/{}", ty), format!("parse_fmt {} {} {},{} -", ty, cap, tx(&t[..at]), tx(&t[at..])));
                }
                // the head (sign, `1e`, `nan(` …) in its own fragment: the next write starts with a long run of digits
                if !head.is_empty() {
                    o.put(&format!("edge-fill/{}", ty), format!("parse_fmt {} {} {},{} -", ty, cap, tx(head), tx(&t[head.len()..])));
                }
                let bytes: Vec<String> = t.bytes().map(|b| format!("{:02x}", b)).collect();
                o.put(&format!("edge-fill/{}", ty), format!("parse_fmt {} {} {} -", ty, cap, bytes.join(",")));
                o.put(&format!("edge-fill-str/{}", ty), format!("parse_str {} {}", ty, tx(&t)));
            }
        }
    }
}

/// huge and tiny values whose coefficient ends in a run of zeros, at the wide widths: `12·10^k` with exponent `q` is an
/// integer far beyond every target (or, for negative `q`, the small integer `12·10^(k+q)`), whichever arm handles `q`
pub fn zero_run_patterns(_o: &mut Out) -> Vec<Vec<u8>> {
    let mut v = vec![];
    for n in [4usize, 5, 6, 8, 13, 30] {
        let f = Fmt { n };
        let p = f.p() as i64;
        for q in [1i64, 2, 19, 20, 37, 38, 39, 40, 41, 42, p - 2, p - 1, p, p + 1, 2 * p, -1, -2, -38, -39, -40, -41, -(p - 2), -(p - 1), -p] {
            for k in [0i64, 1, q.abs() - 1, q.abs(), q.abs() + 1, p - 3, p - 2, p - 1] {
                if k < 0 || k > p - 1 {
                    continue;
                }
                for lead in ["12", "1", "9"] {
                    let c = format!("{}{}", lead, "0".repeat(k as usize));
                    if c.len() as i64 > p {
                        continue;
                    }
                    for neg in [false, true] {
                        v.push(enc_fin(f, neg, c.as_bytes(), &BigInt::from(q)));
                    }
                }
            }
        }
    }
    v
}

/// NaN patterns with small and boundary payloads (1, 9, 10, 99, 100, …) at every width
pub fn nan_payload_patterns(o: &mut Out) -> Vec<Vec<u8>> {
    let mut v = vec![];
    for n in [1usize, 2, 3, 4, 5, 6] {
        let f = Fmt { n };
        let mut payloads: Vec<String> = vec!["0".into()];
        for k in 0..(f.p() - 1) {
            payloads.push(format!("1{}", "0".repeat(k)));
            payloads.push("9".repeat(k + 1));
            payloads.push(format!("{}", 1 + o.rng.below(9)) + &"5".repeat(k));
        }
        for k in 0..64u32 {
            for d in [0u128, 1] {
                payloads.push(((1u128 << k) + d).to_string());
                payloads.push(((1u128 << k) + (1u128 << (k / 2)) + d).to_string());
            }
        }
        for pl in payloads {
            if pl.len() > f.p() - 1 {
                continue;
            }
            for (neg, sig) in [(false, false), (true, false), (false, true), (true, true)] {
                // a finite pattern with the payload as coefficient, then the header overwritten by the NaN header
                let mut b = enc_fin(f, false, pl.as_bytes(), &BigInt::from(0));
                let last = 4 * n - 1;
                b[last] = 0x7c | if neg { 0x80 } else { 0 } | if sig { 0x02 } else { 0 };
                v.push(b);
            }
        }
    }
    v
}

pub fn g_consts(o: &mut Out) {
    g_maxlen_fmt(o, &["b32", "b64", "b128"]);
    for ty in ["b32", "b64", "b128"] {
        // the limits themselves must survive a text round trip
        let f = Fmt { n: type_n(ty).unwrap() };
        let nines = "9".repeat(f.p());
        for (neg, digits, q) in [(false, nines.as_str(), f.qmax()), (true, nines.as_str(), f.qmax()), (false, "1", f.qmin()), (true, "1", f.qmin())] {
            let b = enc_fin(f, neg, digits.as_bytes(), &q);
            o.put(&format!("limit-roundtrip/{}", ty), format!("roundtrip {} {}", ty, hex(&b)));
        }
        o.put(&format!("consts/{}", ty), format!("consts {}", ty));
        // DIGITS-digit integer numerals with exponents around the limits
        let f = Fmt { n: type_n(ty).unwrap() };
        for base in [f.qmin_i(), f.qmax_i()] {
            for d in -3..=3 {
                // DIGITS zeros are a DIGITS-digit integer numeral too (the boundary must not depend on the coefficient's value)
                for digit in ["1", "9", "5", "0"] {
                    let s = format!("{}e{}", digit.repeat(f.p()), base + d);
                    o.put(&format!("limit-numeral/{}", ty), format!("parse_str {} {}", ty, tx(&s)));
                    o.put(&format!("limit-numeral/{}", ty), format!("parse_str {} {}", ty, tx(&format!("-{}", s))));
                    let s1 = format!("1e{}", base + d);
                    o.put(&format!("limit-numeral/{}", ty), format!("parse_str {} {}", ty, tx(&s1)));
                    let s0 = format!("1{}e{}", "0".repeat(f.p() - 1), base + d);
                    o.put(&format!("limit-numeral/{}", ty), format!("parse_str {} {}", ty, tx(&s0)));
                    // every spelling of the exponent, through both entry points: the limit must not depend on it
                    let x = base + d;
                    let (sg, mag) = if x < 0 { ("-", -x) } else { ("", x) };
                    let mut spellings = vec![format!("E{}{}", sg, mag), format!("e{}0{}", sg, mag), format!("E{}000{}", sg, mag), format!("e{}{}{}", sg, "0".repeat(9), mag), format!("e{}{}{}", sg, "0".repeat(14), mag)];
                    if x >= 0 {
                        spellings.extend([format!("e+{}", mag), format!("E+{}", mag), format!("e+00{}", mag)]);
                    }
                    let cap = text_cap(ty).map_or("-".to_string(), |c| c.to_string());
                    // padded so that the whole text fills the streaming text buffer exactly, and one less
                    if let Some(c) = text_cap(ty) {
                        let base = f.p() + 1 + sg.len() + mag.to_string().len();
                        for total in [c - 1, c] {
                            if total > base {
                                spellings.push(format!("e{}{}{}", sg, "0".repeat(total - base), mag));
                            }
                        }
                    }
                    for sp in spellings {
                        for sign in ["", "-", "+"] {
                            let t = format!("{}{}{}", sign, digit.repeat(f.p()), sp);
                            o.put(&format!("limit-spelling/{}", ty), format!("parse_str {} {}", ty, tx(&t)));
                            o.put(&format!("limit-spelling-fmt/{}", ty), format!("parse_fmt {} {} {} -", ty, cap, tx(&t)));
                        }
                    }
                }
            }
        }
    }
}

pub fn texts_to_patterns(texts: &[String]) -> Vec<Vec<u8>> {
    // encode "c e q" texts with our own encoder at the narrowest width that holds them
    let mut out = vec![];
    for t in texts {
        let neg = t.starts_with('-');
        let body = t.trim_start_matches('-');
        let (c, e) = match body.find('e') {
            Some(i) => (&body[..i], body[i + 1..].parse::<i64>().unwrap_or(0)),
            None => (body, 0),
        };
        let (ip, fp) = match c.find('.') {
            Some(i) => (&c[..i], &c[i + 1..]),
            None => (c, ""),
        };
        let digits = format!("{}{}", ip, fp);
        let q = e - fp.len() as i64;
        for n in 1..=6usize {
            let f = Fmt { n };
            if digits.len() <= f.p() && q >= f.qmin_i() && q <= f.qmax_i() {
                out.push(enc_fin(f, neg, digits.as_bytes(), &BigInt::from(q)));
                if n < 5 {
                    // also one width up: same value, different container
                    let g = Fmt { n: n + 1 };
                    out.push(enc_fin(g, neg, digits.as_bytes(), &BigInt::from(q)));
                }
                break;
            }
        }
    }
    out
}
