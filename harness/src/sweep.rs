//! Exhaustive / strided sweeps over 32-bit domains, run on the implementation alone (release profile, all cores).
//!
//! A sweep evaluates an *oracle-free* necessary condition of a property on every element of a finite domain — far more
//! elements than can be sent through the Lean driver — and emits, as ordinary requests, only the elements on which the
//! condition fails (or the call panics).  Those requests then go through the normal pipeline (both profiles, model, Lean
//! oracle), so a sweep can never raise an alarm by itself: it only makes sure the rare failing element is among the
//! requests the oracle judges.  On a tree where the property holds a sweep emits nothing.
//!
//!   C12: f32 bits  -> from_f32 -> to_f32      must give back the identical bits (NaN: a NaN of the same sign)
//!   C10: i32/u32 v -> from_i32 -> to_i32      must give back v, and Display must print v's own decimal text
//!   C13: Bitstring32 bits -> to_f32 / to_f64  must agree with str::parse of the Display text (None iff that overflows)
//!   C03: Bitstring32 bits -> Display -> try_parse_str  must be accepted, keep the class and sign, and be a fixed point
//!        from then on; the same bytes through `Bitstring` must re-read to the same bytes
//!   C15: the same 4 bytes held by Bitstring32, Bitstring and BigBitstring must print, classify and convert identically
//!
//! Domains too large to enumerate (f64, i64…u128, 64/128-bit decimals) get *random* sweeps of the same conditions: half
//! uniform bit patterns, half structured values (few digits, exponents near zero or at the limits), millions per run.
use crate::ops::{hex, ryu_text, Dec};
use crate::util::{enc_fin, Fmt, Rng};
use decstr::*;
use num_bigint::BigInt;
use std::panic::{catch_unwind, AssertUnwindSafe};
use std::sync::atomic::{AtomicU64, Ordering};

pub struct Plan {
    pub prop: String,
    pub thorough: bool,
    pub seed: u64,
}

fn tx(s: &str) -> String {
    hex(s.as_bytes())
}

/// run `f` over `start, start+stride, …` below 2^32 on all cores; collect the emitted requests
fn par_sweep<F: Fn(u32, &mut Vec<String>) + Sync>(stride: u64, offset: u64, f: F) -> (u64, Vec<String>) {
    let threads = std::thread::available_parallelism().map(|n| n.get()).unwrap_or(4).min(16) as u64;
    let total = ((1u64 << 32) - offset + stride - 1) / stride;
    let per = (total + threads - 1) / threads;
    let count = AtomicU64::new(0);
    let mut out = vec![];
    std::thread::scope(|s| {
        let hs: Vec<_> = (0..threads)
            .map(|t| {
                let f = &f;
                let count = &count;
                s.spawn(move || {
                    let mut v = vec![];
                    let lo = t * per;
                    let hi = ((t + 1) * per).min(total);
                    let mut n = 0u64;
                    for k in lo..hi {
                        let x = offset + k * stride;
                        if v.len() < 2000 {
                            f(x as u32, &mut v);
                        }
                        n += 1;
                    }
                    count.fetch_add(n, Ordering::Relaxed);
                    v
                })
            })
            .collect();
        for h in hs {
            out.extend(h.join().unwrap_or_default());
        }
    });
    (count.load(Ordering::Relaxed), out)
}

fn c12_one<D: Dec>(bits: u32, out: &mut Vec<String>) {
    let f = f32::from_bits(bits);
    let ok = catch_unwind(AssertUnwindSafe(|| match D::from_f("f32", bits as u64) {
        Some(Some(d)) => match d.to_f("f32") {
            Some(Some(back)) => {
                if f.is_nan() {
                    let g = f32::from_bits(back as u32);
                    g.is_nan() && g.is_sign_negative() == f.is_sign_negative()
                } else {
                    back as u32 == bits
                }
            }
            _ => false,
        },
        // only the 7-digit type may decline, and only a text with more than 7 written digits (`16777216.0` has 9)
        Some(None) => {
            let r = ryu_text("f32", bits as u64);
            let mant = r.split(|c| c == 'e' || c == 'E').next().unwrap_or("");
            let written = mant.chars().filter(|c| c.is_ascii_digit()).count(); // the crate counts the digits as written, leading zeros included (C04)
            D::NAME == "b32" && f.is_finite() && written > 7
        }
        None => false,
    }))
    .unwrap_or(false);
    if !ok {
        out.push(format!("sweep-anomaly/from_f32/{}\tfrom_float {} f32 {:08x} {}", D::NAME, D::NAME, bits, tx(&ryu_text("f32", bits as u64))));
    }
}

fn c10_one<D: Dec>(bits: u32, out: &mut Vec<String>) {
    for (ity, v, vu, text) in [
        ("i32", bits as i32 as i128, bits as i32 as i128 as u128, (bits as i32).to_string()),
        ("u32", bits as i128, bits as u128, bits.to_string()),
    ] {
        let ok = catch_unwind(AssertUnwindSafe(|| match D::from_int(ity, v, vu) {
            Some(Some(d)) => d.to_string() == text && d.to_int(ity) == Some(Some(v)),
            // 10 digits do not fit the 7 digits of a 32-bit decimal: None is legitimate there
            Some(None) => D::NAME == "b32" && text.trim_start_matches('-').len() > 7,
            None => false,
        }))
        .unwrap_or(false);
        if !ok {
            out.push(format!("sweep-anomaly/from_{}/{}\tfrom_int {} {} {}", ity, D::NAME, D::NAME, ity, text));
        }
    }
}

fn c13_one(bits: u32, out: &mut Vec<String>) {
    let le = bits.to_le_bytes();
    let ok = catch_unwind(AssertUnwindSafe(|| {
        let d = Bitstring32::from_le_bytes(le);
        if !d.is_finite() {
            return true; // specials are cheap to enumerate through the oracle (last-byte patterns)
        }
        let text = d.to_string();
        let e64 = text.parse::<f64>().ok().filter(|f| f.is_finite()).map(|f| f.to_bits());
        let e32 = text.parse::<f32>().ok().filter(|f| f.is_finite()).map(|f| f.to_bits() as u64);
        Dec::to_f(&d, "f64") == Some(e64) && Dec::to_f(&d, "f32") == Some(e32)
    }))
    .unwrap_or(false);
    if !ok {
        for fty in ["f32", "f64"] {
            out.push(format!("sweep-anomaly/to_{}/b32\tto_float b32 {} {}", fty, hex(&le), fty));
        }
    }
}

fn c03_one(bits: u32, out: &mut Vec<String>) {
    let le = bits.to_le_bytes();
    let ok = catch_unwind(AssertUnwindSafe(|| {
        let d = Bitstring32::from_le_bytes(le);
        let t = d.to_string();
        let Ok(d2) = Bitstring32::try_parse_str(&t) else { return false };
        let t2 = d2.to_string();
        let Ok(d3) = Bitstring32::try_parse_str(&t2) else { return false };
        let Some(Ok(y)) = <Bitstring as Dec>::try_le(&le) else { return false };
        let Ok(y2) = Bitstring::try_parse_str(&y.to_string()) else { return false };
        d2.as_le_bytes() == d3.as_le_bytes() && Dec::cls(&d) == Dec::cls(&d2) && t == t2 && y2.as_le_bytes() == d2.as_le_bytes()
    }))
    .unwrap_or(false);
    if !ok {
        out.push(format!("sweep-anomaly/roundtrip/b32\troundtrip b32 {}", hex(&le)));
        out.push(format!("sweep-anomaly/roundtrip/dyn\troundtrip dyn {}", hex(&le)));
    }
}

/// C16 at 4 bytes: verbatim storage, exact reversal, the big-endian pair inverse to each other; the same bytes through
/// the dynamic types' `try_from_le_bytes`
fn c16_one(bits: u32, out: &mut Vec<String>) {
    let le = bits.to_le_bytes();
    let ok = catch_unwind(AssertUnwindSafe(|| {
        let d = Bitstring32::from_le_bytes(le);
        let mut rev = le;
        rev.reverse();
        let Some(Ok(y)) = <Bitstring as Dec>::try_le(&le) else { return false };
        d.as_le_bytes() == &le && d.to_be_bytes() == rev && Bitstring32::from_be_bytes(rev).as_le_bytes() == &le
            && Bitstring32::from_be_bytes(d.to_be_bytes()).as_le_bytes() == &le && y.as_le_bytes() == &le[..]
    }))
    .unwrap_or(false);
    if !ok {
        out.push(format!("sweep-anomaly/bytes/b32\tbytes b32 {}", hex(&le)));
        out.push(format!("sweep-anomaly/try_le/dyn\ttry_le dyn {}", hex(&le)));
    }
}

/// C08 at 32 bits: the six classifiers are a partition that follows the top byte, the sign is the top bit, and the
/// first token of the printed text names the same class
fn c08_one(bits: u32, out: &mut Vec<String>) {
    let le = bits.to_le_bytes();
    let ok = catch_unwind(AssertUnwindSafe(|| {
        let d = Bitstring32::from_le_bytes(le);
        let top = le[3];
        let (fin, inf, nan) = (top & 0x78 != 0x78, top & 0x7c == 0x78, top & 0x7c == 0x7c);
        let snan = nan && top & 0x02 != 0;
        let t = d.to_string().to_ascii_lowercase();
        let r = t.trim_start_matches('-');
        let tok_ok = if inf { r.starts_with("inf") } else if snan { r.starts_with("snan") } else if nan { r.starts_with("nan") } else { r.starts_with(|c: char| c.is_ascii_digit()) };
        d.is_finite() == fin && d.is_infinite() == inf && d.is_nan() == nan && d.is_signaling_nan() == snan && d.is_quiet_nan() == (nan && !snan)
            && d.is_sign_negative() == (top & 0x80 != 0) && t.starts_with('-') == (top & 0x80 != 0) && tok_ok
    }))
    .unwrap_or(false);
    if !ok {
        out.push(format!("sweep-anomaly/classify/b32\tclassify b32 {}", hex(&le)));
    }
}

fn c15_one(bits: u32, out: &mut Vec<String>) {
    let le = bits.to_le_bytes();
    fn view<D: Dec>(le: &[u8]) -> Option<(String, [bool; 6], Option<Option<i128>>, Option<Option<i128>>, Option<Option<u64>>, Option<Option<u64>>)> {
        let d = match D::from_le(le) {
            Some(d) => d,
            None => D::try_le(le)?.ok()?,
        };
        Some((d.to_string(), d.cls(), d.to_int("i64"), d.to_int("u8"), d.to_f("f64"), d.to_f("f32")))
    }
    let ok = catch_unwind(AssertUnwindSafe(|| {
        let a = view::<Bitstring32>(&le);
        let b = view::<Bitstring>(&le);
        #[cfg(feature = "big")]
        let c = view::<BigBitstring>(&le);
        #[cfg(not(feature = "big"))]
        let c = b.clone();
        a.is_some() && a == b && b == c
    }))
    .unwrap_or(false);
    if !ok {
        for ty in ["b32", "dyn", "big"] {
            out.push(format!("sweep-anomaly/format/{}\tformat {} {}", ty, ty, hex(&le)));
            out.push(format!("sweep-anomaly/classify/{}\tclassify {} {}", ty, ty, hex(&le)));
            for i in ["i64", "u8"] {
                out.push(format!("sweep-anomaly/to_int/{}\tto_int {} {} {}", ty, ty, hex(&le), i));
            }
            for f in ["f64", "f32"] {
                out.push(format!("sweep-anomaly/to_float/{}\tto_float {} {} {}", ty, ty, hex(&le), f));
            }
        }
    }
}

/// `count` random elements on all cores; every thread has its own SplitMix64 stream derived from the seed
fn par_random<F: Fn(&mut Rng, &mut Vec<String>) + Sync>(count: u64, seed: u64, f: F) -> (u64, Vec<String>) {
    let threads = std::thread::available_parallelism().map(|n| n.get()).unwrap_or(4).min(16) as u64;
    let per = (count + threads - 1) / threads;
    let mut out = vec![];
    std::thread::scope(|s| {
        let hs: Vec<_> = (0..threads)
            .map(|t| {
                let f = &f;
                s.spawn(move || {
                    let mut rng = Rng::new(seed.wrapping_mul(1000003).wrapping_add(t));
                    let mut v = vec![];
                    for _ in 0..per {
                        if v.len() < 500 {
                            f(&mut rng, &mut v);
                        }
                    }
                    v
                })
            })
            .collect();
        for h in hs {
            out.extend(h.join().unwrap_or_default());
        }
    });
    (per * threads, out)
}

/// a decimal bit pattern of `n` 32-bit words: uniform bits, or a structured finite value
fn rand_pattern(rng: &mut Rng, n: usize) -> Vec<u8> {
    if rng.chance(1, 2) {
        return rng.bytes(4 * n);
    }
    let f = Fmt { n };
    let nd = 1 + rng.below(f.p() as u64) as usize;
    let digits: Vec<u8> = (0..f.p()).map(|i| if i < f.p() - nd { b'0' } else { b'0' + rng.below(10) as u8 }).collect();
    let q: i64 = match rng.below(4) {
        0 => rng.range(-(nd as i64) - 3, 6),
        1 => f.qmin_i() + rng.below(40) as i64,
        2 => f.qmax_i() - rng.below(40) as i64,
        _ => rng.range(f.qmin_i(), f.qmax_i()),
    };
    enc_fin(f, rng.chance(1, 2), &digits, &BigInt::from(q))
}

fn rand_f64(rng: &mut Rng) -> u64 {
    match rng.below(4) {
        0 => rng.next(),
        1 => ((rng.below(2000) as i64 - 1000) as f64 * 10f64.powi(rng.range(-30, 30) as i32)).to_bits(),
        2 => (rng.next() as u32 as f32 as f64 / 1000.0).to_bits(),
        // few significant digits at any magnitude
        _ => format!("{}e{}", rng.below(1_000_000), rng.range(-330, 310)).parse::<f64>().unwrap_or(0.0).to_bits(),
    }
}

fn c12_f64<D: Dec>(rng: &mut Rng, out: &mut Vec<String>) {
    let bits = rand_f64(rng);
    let f = f64::from_bits(bits);
    let ok = catch_unwind(AssertUnwindSafe(|| match D::from_f("f64", bits) {
        Some(Some(d)) => match d.to_f("f64") {
            Some(Some(back)) => {
                if f.is_nan() {
                    let g = f64::from_bits(back);
                    g.is_nan() && g.is_sign_negative() == f.is_sign_negative()
                } else {
                    back == bits
                }
            }
            _ => false,
        },
        Some(None) => {
            let r = ryu_text("f64", bits);
            let mant = r.split(|c| c == 'e' || c == 'E').next().unwrap_or("");
            let written = mant.chars().filter(|c| c.is_ascii_digit()).count();
            f.is_finite() && (D::NAME == "b32" || (D::NAME == "b64" && written > 16))
        }
        None => false,
    }))
    .unwrap_or(false);
    if !ok {
        out.push(format!("sweep-anomaly/from_f64/{}\tfrom_float {} f64 {:016x} {}", D::NAME, D::NAME, bits, tx(&ryu_text("f64", bits))));
    }
}

fn c10_wide<D: Dec>(rng: &mut Rng, out: &mut Vec<String>) {
    let raw = ((rng.next() as u128) << 64 | rng.next() as u128) >> rng.below(128);
    let p = match D::NAME { "b32" => 7, "b64" => 16, "b128" => 34, _ => usize::MAX };
    let cases: [(&str, i128, u128, String); 4] = [
        ("i64", raw as i64 as i128, raw as i64 as i128 as u128, (raw as i64).to_string()),
        ("u64", raw as u64 as i128, raw as u64 as u128, (raw as u64).to_string()),
        ("i128", raw as i128, raw, (raw as i128).to_string()),
        ("u128", raw as i128, raw, raw.to_string()),
    ];
    for (ity, v, vu, text) in cases {
        let ok = catch_unwind(AssertUnwindSafe(|| match D::from_int(ity, v, vu) {
            Some(Some(d)) => {
                d.to_string() == text && if ity == "u128" { d.to_u128x() == Some(vu) } else { d.to_int(ity) == Some(Some(v)) }
            }
            Some(None) => text.trim_start_matches('-').len() > p,
            None => false,
        }))
        .unwrap_or(false);
        if !ok {
            out.push(format!("sweep-anomaly/from_{}/{}\tfrom_int {} {} {}", ity, D::NAME, D::NAME, ity, text));
        }
    }
}

fn c13_wide<D: Dec>(n: usize) -> impl Fn(&mut Rng, &mut Vec<String>) + Sync {
    move |rng, out| {
        let le = rand_pattern(rng, n);
        let ok = catch_unwind(AssertUnwindSafe(|| {
            let Some(d) = D::from_le(&le).or_else(|| D::try_le(&le).and_then(|r| r.ok())) else { return false };
            if !d.cls()[1] {
                return true;
            }
            let text = d.to_string();
            let e64 = text.parse::<f64>().ok().filter(|f| f.is_finite()).map(|f| f.to_bits());
            let e32 = text.parse::<f32>().ok().filter(|f| f.is_finite()).map(|f| f.to_bits() as u64);
            // beyond 17 significant digits the conversion may decline (its scratch buffer is finite): None or the rounding
            let mant = text.split(|c| c == 'e' || c == 'E').next().unwrap_or("");
            let sig = mant.chars().filter(|c| c.is_ascii_digit()).skip_while(|c| *c == '0').count();
            let fine = |got: Option<Option<u64>>, want: Option<u64>| got == Some(want) || (sig > 17 && got == Some(None));
            fine(d.to_f("f64"), e64) && fine(d.to_f("f32"), e32)
        }))
        .unwrap_or(false);
        if !ok {
            for fty in ["f32", "f64"] {
                out.push(format!("sweep-anomaly/to_{}/{}\tto_float {} {} {}", fty, D::NAME, D::NAME, hex(&le), fty));
            }
        }
    }
}

fn c03_wide<D: Dec>(n: usize) -> impl Fn(&mut Rng, &mut Vec<String>) + Sync {
    move |rng, out| {
        let le = rand_pattern(rng, n);
        let ok = catch_unwind(AssertUnwindSafe(|| {
            let Some(d) = D::from_le(&le).or_else(|| D::try_le(&le).and_then(|r| r.ok())) else { return false };
            let t = d.to_string();
            let Ok(d2) = D::parse_str(&t) else { return false };
            let t2 = d2.to_string();
            let Ok(d3) = D::parse_str(&t2) else { return false };
            d2.le() == d3.le() && d.cls() == d2.cls() && t == t2
        }))
        .unwrap_or(false);
        if !ok {
            out.push(format!("sweep-anomaly/roundtrip/{}\troundtrip {} {}", D::NAME, D::NAME, hex(&le)));
        }
    }
}

fn c15_wide(n: usize) -> impl Fn(&mut Rng, &mut Vec<String>) + Sync {
    move |rng, out| {
        let le = rand_pattern(rng, n);
        type View = Option<(String, [bool; 6], Option<Option<i128>>, Option<Option<i128>>, Option<Option<u64>>, Option<Option<u64>>)>;
        fn view<D: Dec>(le: &[u8]) -> View {
            let d = match D::from_le(le) {
                Some(d) => d,
                None => D::try_le(le)?.ok()?,
            };
            Some((d.to_string(), d.cls(), d.to_int("i64"), d.to_int("u8"), d.to_f("f64"), d.to_f("f32")))
        }
        let fixed: &str = if n == 2 { "b64" } else if n == 4 { "b128" } else { "dyn" };
        let ok = catch_unwind(AssertUnwindSafe(|| {
            let b = view::<Bitstring>(&le);
            let a = if n == 2 { view::<Bitstring64>(&le) } else if n == 4 { view::<Bitstring128>(&le) } else { b.clone() };
            #[cfg(feature = "big")]
            let c = view::<BigBitstring>(&le);
            #[cfg(not(feature = "big"))]
            let c = b.clone();
            a.is_some() && a == b && b == c
        }))
        .unwrap_or(false);
        if !ok {
            for ty in [fixed, "dyn", "big"] {
                out.push(format!("sweep-anomaly/format/{}\tformat {} {}", ty, ty, hex(&le)));
                out.push(format!("sweep-anomaly/classify/{}\tclassify {} {}", ty, ty, hex(&le)));
                out.push(format!("sweep-anomaly/to_int/{}\tto_int {} {} i64", ty, ty, hex(&le)));
                out.push(format!("sweep-anomaly/to_float/{}\tto_float {} {} f64", ty, ty, hex(&le)));
            }
        }
    }
}

/// C11: the ten integer targets must be consistent with one exact value (that of `to_i128`, or `to_u128` above it):
/// `to_<int>` is `Some(v)` exactly when `v` lies in the target's range
fn c11_one(bits: u32, out: &mut Vec<String>) {
    let le = bits.to_le_bytes();
    c11_bytes::<Bitstring32>(&le, out);
}

fn c11_bytes<D: Dec>(le: &[u8], out: &mut Vec<String>) {
    const T: [(&str, i128, i128); 9] = [
        ("i8", i8::MIN as i128, i8::MAX as i128), ("i16", i16::MIN as i128, i16::MAX as i128), ("i32", i32::MIN as i128, i32::MAX as i128),
        ("i64", i64::MIN as i128, i64::MAX as i128), ("i128", i128::MIN, i128::MAX), ("u8", 0, u8::MAX as i128), ("u16", 0, u16::MAX as i128),
        ("u32", 0, u32::MAX as i128), ("u64", 0, u64::MAX as i128),
    ];
    let ok = catch_unwind(AssertUnwindSafe(|| {
        let Some(d) = D::from_le(le).or_else(|| D::try_le(le).and_then(|r| r.ok())) else { return false };
        let wide = d.to_int("i128").flatten();
        let uwide = d.to_u128x();
        // the two widest targets agree where their ranges overlap
        if let (Some(a), Some(b)) = (wide, uwide) {
            if a < 0 || a as u128 != b {
                return false;
            }
        }
        if wide.map_or(false, |a| a >= 0) != uwide.map_or(false, |b| b <= i128::MAX as u128) && !(d.cls()[0] && wide == Some(0)) {
            return false;
        }
        // a negative zero converts to 0 in the signed targets; the unsigned ones may decline it (sign never into unsigned)
        let neg_zero = d.cls()[0] && wide == Some(0);
        T.iter().all(|(name, lo, hi)| {
            let got = d.to_int(name).flatten();
            match wide {
                Some(v) => got == (if *lo <= v && v <= *hi { Some(v) } else { None }) || (neg_zero && *lo == 0 && got.is_none()),
                None => got.is_none(),
            }
        })
    }))
    .unwrap_or(false);
    if !ok {
        for name in ["i8", "i64", "i128", "u8", "u64", "u128"] {
            out.push(format!("sweep-anomaly/to_{}/{}\tto_int {} {} {}", name, D::NAME, D::NAME, hex(le), name));
        }
    }
}

fn c11_wide<D: Dec>(n: usize) -> impl Fn(&mut Rng, &mut Vec<String>) + Sync {
    move |rng, out| {
        let le = rand_pattern(rng, n);
        c11_bytes::<D>(&le, out);
    }
}

pub fn run(p: &Plan) {
    // strides are primes, so that every residue class of every power of two is visited; the offset comes from the seed
    let mut report = vec![];
    let mut emitted: Vec<String> = vec![];
    let mut go = |name: &str, stride: u64, f: &(dyn Fn(u32, &mut Vec<String>) + Sync)| {
        let offset = if stride == 1 { 0 } else { p.seed.wrapping_mul(0x9E3779B97F4A7C15) % stride };
        let t0 = std::time::Instant::now();
        let (n, v) = par_sweep(stride, offset, f);
        report.push(format!(
            "{{\"sweep\":\"{}\",\"domain\":\"2^32\",\"stride\":{},\"offset\":{},\"elements\":{},\"anomalies\":{},\"seconds\":{:.1}}}",
            name, stride, offset, n, v.len(), t0.elapsed().as_secs_f64()
        ));
        emitted.extend(v);
    };
    let mut report2 = vec![];
    let mut emitted2: Vec<String> = vec![];
    let mut rnd = |name: &str, count: u64, f: &(dyn Fn(&mut Rng, &mut Vec<String>) + Sync)| {
        let t0 = std::time::Instant::now();
        let (n, v) = par_random(count, p.seed, f);
        report2.push(format!(
            "{{\"sweep\":\"{}\",\"domain\":\"random\",\"elements\":{},\"anomalies\":{},\"seconds\":{:.1}}}",
            name, n, v.len(), t0.elapsed().as_secs_f64()
        ));
        emitted2.extend(v);
    };
    let t = p.thorough;
    match p.prop.as_str() {
        "C12" => {
            go("from_f32->to_f32 identical bits, Bitstring32", if t { 1 } else { 61 }, &c12_one::<Bitstring32>);
            go("from_f32->to_f32 identical bits, Bitstring64", if t { 1 } else { 17 }, &c12_one::<Bitstring64>);
            go("from_f32->to_f32 identical bits, Bitstring128", if t { 3 } else { 509 }, &c12_one::<Bitstring128>);
            go("from_f32->to_f32 identical bits, Bitstring", if t { 1 } else { 127 }, &c12_one::<Bitstring>);
            #[cfg(feature = "big")]
            go("from_f32->to_f32 identical bits, BigBitstring", if t { 7 } else { 1021 }, &c12_one::<BigBitstring>);
            let m = if t { 400_000_000 } else { 8_000_000 };
            rnd("from_f64->to_f64 identical bits, Bitstring64", m, &c12_f64::<Bitstring64>);
            rnd("from_f64->to_f64 identical bits, Bitstring128", m, &c12_f64::<Bitstring128>);
            rnd("from_f64->to_f64 identical bits, Bitstring", m, &c12_f64::<Bitstring>);
            rnd("from_f64->to_f64 identical bits, Bitstring32", m / 8, &c12_f64::<Bitstring32>);
            #[cfg(feature = "big")]
            rnd("from_f64->to_f64 identical bits, BigBitstring", m / 8, &c12_f64::<BigBitstring>);
        }
        "C10" => {
            go("from_i32/u32->Display,to_i32/u32, Bitstring32", if t { 1 } else { 101 }, &c10_one::<Bitstring32>);
            go("from_i32/u32->Display,to_i32/u32, Bitstring64", if t { 1 } else { 211 }, &c10_one::<Bitstring64>);
            go("from_i32/u32->Display,to_i32/u32, Bitstring128", if t { 5 } else { 503 }, &c10_one::<Bitstring128>);
            go("from_i32/u32->Display,to_i32/u32, Bitstring", if t { 3 } else { 211 }, &c10_one::<Bitstring>);
            #[cfg(feature = "big")]
            go("from_i32/u32->Display,to_i32/u32, BigBitstring", if t { 11 } else { 1009 }, &c10_one::<BigBitstring>);
            let m = if t { 100_000_000 } else { 2_000_000 };
            rnd("from_i64/u64/i128/u128->Display,to_*, Bitstring32", m, &c10_wide::<Bitstring32>);
            rnd("from_i64/u64/i128/u128->Display,to_*, Bitstring64", m, &c10_wide::<Bitstring64>);
            rnd("from_i64/u64/i128/u128->Display,to_*, Bitstring128", m, &c10_wide::<Bitstring128>);
            rnd("from_i64/u64/i128/u128->Display,to_*, Bitstring", m, &c10_wide::<Bitstring>);
            #[cfg(feature = "big")]
            rnd("from_i64/u64/i128/u128->Display,to_*, BigBitstring", m / 4, &c10_wide::<BigBitstring>);
        }
        "C03" => {
            go("Bitstring32 -> Display -> try_parse_str: accepted, class kept, fixed point; same via Bitstring", if t { 1 } else { 211 }, &c03_one);
            let m = if t { 200_000_000 } else { 3_000_000 };
            rnd("Bitstring64 -> Display -> try_parse_str fixed point", m, &c03_wide::<Bitstring64>(2));
            rnd("Bitstring128 -> Display -> try_parse_str fixed point", m, &c03_wide::<Bitstring128>(4));
            rnd("Bitstring (96/160 bits) -> Display -> try_parse_str fixed point", m / 2, &c03_wide::<Bitstring>(3));
            rnd("Bitstring (160 bits) -> Display -> try_parse_str fixed point", m / 2, &c03_wide::<Bitstring>(5));
        }
        "C15" => {
            go("same 4 bytes in Bitstring32/Bitstring/BigBitstring: Display, classes, to_i64, to_u8, to_f64, to_f32 agree", if t { 3 } else { 251 }, &c15_one);
            let m = if t { 100_000_000 } else { 2_000_000 };
            rnd("same 8 bytes in Bitstring64/Bitstring/BigBitstring agree", m, &c15_wide(2));
            rnd("same 16 bytes in Bitstring128/Bitstring/BigBitstring agree", m, &c15_wide(4));
            rnd("same 12 bytes in Bitstring/BigBitstring agree", m, &c15_wide(3));
            rnd("same 20 bytes in Bitstring/BigBitstring agree", m, &c15_wide(5));
        }
        "C16" => {
            go("Bitstring32 from_le/as_le/to_be/from_be: verbatim, reversed, inverse; Bitstring::try_from_le_bytes verbatim", if t { 1 } else { 3 }, &c16_one);
        }
        "C08" => {
            go("Bitstring32 classifiers: partition following the top byte, sign bit, printed token", if t { 1 } else { 251 }, &c08_one);
        }
        "C11" => {
            go("Bitstring32: the ten integer targets are consistent with one exact value", if t { 1 } else { 101 }, &c11_one);
            let m = if t { 200_000_000 } else { 4_000_000 };
            rnd("Bitstring64: integer targets consistent", m, &c11_wide::<Bitstring64>(2));
            rnd("Bitstring128: integer targets consistent", m, &c11_wide::<Bitstring128>(4));
            rnd("Bitstring 160 bits: integer targets consistent", m / 2, &c11_wide::<Bitstring>(5));
        }
        "C13" => {
            go("Bitstring32 to_f32/to_f64 = str::parse(Display)", if t { 1 } else { 211 }, &c13_one);
            let m = if t { 200_000_000 } else { 3_000_000 };
            rnd("Bitstring64 to_f32/to_f64 = str::parse(Display)", m, &c13_wide::<Bitstring64>(2));
            rnd("Bitstring128 to_f32/to_f64 = str::parse(Display)", m, &c13_wide::<Bitstring128>(4));
            rnd("Bitstring 160 bits to_f32/to_f64 = str::parse(Display)", m / 2, &c13_wide::<Bitstring>(5));
        }
        _ => {}
    }
    for l in emitted.iter().chain(emitted2.iter()) {
        println!("{}", l);
    }
    report.extend(report2);
    eprintln!("[{}]", report.join(","));
}
