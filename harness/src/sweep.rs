//! Exhaustive / strided sweeps over 32-bit domains, run on the implementation alone (release profile, all cores).
//!
//! A sweep evaluates an *oracle-free* necessary condition of a property on every element of a finite domain — far more
//! elements than can be sent through the Lean driver — and emits, as ordinary requests, only the elements on which the
//! condition fails (or the call panics).  Those requests then go through the normal pipeline (both profiles, model, Lean
//! oracle), so a sweep can never raise an alarm by itself: it only makes sure the rare failing element is among the
//! requests the oracle judges.  On a tree where the property holds a sweep emits nothing.
//!
//!   C12: f32 bits  -> from_f32 -> to_f32      must give back the identical bits (NaN: a NaN of the same sign)
//!   C10: i32/u32 v -> from_i32 -> to_i32      must give back v, and Display must print v's own decimal text
//!   C13: Bitstring32 bits -> to_f32 / to_f64  must agree with str::parse of the Display text (None iff that overflows)
//!   C03: Bitstring32 bits -> Display -> try_parse_str  must be accepted, keep the class and sign, and be a fixed point
//!        from then on; the same bytes through `Bitstring` must re-read to the same bytes
//!   C15: the same 4 bytes held by Bitstring32, Bitstring and BigBitstring must print, classify and convert identically
use crate::ops::{hex, ryu_text, Dec};
use decstr::*;
use std::panic::{catch_unwind, AssertUnwindSafe};
use std::sync::atomic::{AtomicU64, Ordering};

pub struct Plan {
    pub prop: String,
    pub thorough: bool,
    pub seed: u64,
}

fn tx(s: &str) -> String {
    hex(s.as_bytes())
}

/// run `f` over `start, start+stride, …` below 2^32 on all cores; collect the emitted requests
fn par_sweep<F: Fn(u32, &mut Vec<String>) + Sync>(stride: u64, offset: u64, f: F) -> (u64, Vec<String>) {
    let threads = std::thread::available_parallelism().map(|n| n.get()).unwrap_or(4).min(16) as u64;
    let total = ((1u64 << 32) - offset + stride - 1) / stride;
    let per = (total + threads - 1) / threads;
    let count = AtomicU64::new(0);
    let mut out = vec![];
    std::thread::scope(|s| {
        let hs: Vec<_> = (0..threads)
            .map(|t| {
                let f = &f;
                let count = &count;
                s.spawn(move || {
                    let mut v = vec![];
                    let lo = t * per;
                    let hi = ((t + 1) * per).min(total);
                    let mut n = 0u64;
                    for k in lo..hi {
                        let x = offset + k * stride;
                        if v.len() < 2000 {
                            f(x as u32, &mut v);
                        }
                        n += 1;
                    }
                    count.fetch_add(n, Ordering::Relaxed);
                    v
                })
            })
            .collect();
        for h in hs {
            out.extend(h.join().unwrap_or_default());
        }
    });
    (count.load(Ordering::Relaxed), out)
}

fn c12_one<D: Dec>(bits: u32, out: &mut Vec<String>) {
    let f = f32::from_bits(bits);
    let ok = catch_unwind(AssertUnwindSafe(|| match D::from_f("f32", bits as u64) {
        Some(Some(d)) => match d.to_f("f32") {
            Some(Some(back)) => {
                if f.is_nan() {
                    let g = f32::from_bits(back as u32);
                    g.is_nan() && g.is_sign_negative() == f.is_sign_negative()
                } else {
                    back as u32 == bits
                }
            }
            _ => false,
        },
        // only the 7-digit type may decline, and only a text with more than 7 written digits (`16777216.0` has 9)
        Some(None) => {
            let r = ryu_text("f32", bits as u64);
            let mant = r.split(|c| c == 'e' || c == 'E').next().unwrap_or("");
            let written = mant.chars().filter(|c| c.is_ascii_digit()).count(); // the crate counts the digits as written, leading zeros included (C04)
            D::NAME == "b32" && f.is_finite() && written > 7
        }
        None => false,
    }))
    .unwrap_or(false);
    if !ok {
        out.push(format!("sweep-anomaly/from_f32/{}\tfrom_float {} f32 {:08x} {}", D::NAME, D::NAME, bits, tx(&ryu_text("f32", bits as u64))));
    }
}

fn c10_one<D: Dec>(bits: u32, out: &mut Vec<String>) {
    for (ity, v, vu, text) in [
        ("i32", bits as i32 as i128, bits as i32 as i128 as u128, (bits as i32).to_string()),
        ("u32", bits as i128, bits as u128, bits.to_string()),
    ] {
        let ok = catch_unwind(AssertUnwindSafe(|| match D::from_int(ity, v, vu) {
            Some(Some(d)) => d.to_string() == text && d.to_int(ity) == Some(Some(v)),
            // 10 digits do not fit the 7 digits of a 32-bit decimal: None is legitimate there
            Some(None) => D::NAME == "b32" && text.trim_start_matches('-').len() > 7,
            None => false,
        }))
        .unwrap_or(false);
        if !ok {
            out.push(format!("sweep-anomaly/from_{}/{}\tfrom_int {} {} {}", ity, D::NAME, D::NAME, ity, text));
        }
    }
}

fn c13_one(bits: u32, out: &mut Vec<String>) {
    let le = bits.to_le_bytes();
    let ok = catch_unwind(AssertUnwindSafe(|| {
        let d = Bitstring32::from_le_bytes(le);
        if !d.is_finite() {
            return true; // specials are cheap to enumerate through the oracle (last-byte patterns)
        }
        let text = d.to_string();
        let e64 = text.parse::<f64>().ok().filter(|f| f.is_finite()).map(|f| f.to_bits());
        let e32 = text.parse::<f32>().ok().filter(|f| f.is_finite()).map(|f| f.to_bits() as u64);
        Dec::to_f(&d, "f64") == Some(e64) && Dec::to_f(&d, "f32") == Some(e32)
    }))
    .unwrap_or(false);
    if !ok {
        for fty in ["f32", "f64"] {
            out.push(format!("sweep-anomaly/to_{}/b32\tto_float b32 {} {}", fty, hex(&le), fty));
        }
    }
}

fn c03_one(bits: u32, out: &mut Vec<String>) {
    let le = bits.to_le_bytes();
    let ok = catch_unwind(AssertUnwindSafe(|| {
        let d = Bitstring32::from_le_bytes(le);
        let t = d.to_string();
        let Ok(d2) = Bitstring32::try_parse_str(&t) else { return false };
        let t2 = d2.to_string();
        let Ok(d3) = Bitstring32::try_parse_str(&t2) else { return false };
        let Some(Ok(y)) = <Bitstring as Dec>::try_le(&le) else { return false };
        let Ok(y2) = Bitstring::try_parse_str(&y.to_string()) else { return false };
        d2.as_le_bytes() == d3.as_le_bytes() && Dec::cls(&d) == Dec::cls(&d2) && t == t2 && y2.as_le_bytes() == d2.as_le_bytes()
    }))
    .unwrap_or(false);
    if !ok {
        out.push(format!("sweep-anomaly/roundtrip/b32\troundtrip b32 {}", hex(&le)));
        out.push(format!("sweep-anomaly/roundtrip/dyn\troundtrip dyn {}", hex(&le)));
    }
}

fn c15_one(bits: u32, out: &mut Vec<String>) {
    let le = bits.to_le_bytes();
    fn view<D: Dec>(le: &[u8]) -> Option<(String, [bool; 6], Option<Option<i128>>, Option<Option<i128>>, Option<Option<u64>>, Option<Option<u64>>)> {
        let d = match D::from_le(le) {
            Some(d) => d,
            None => D::try_le(le)?.ok()?,
        };
        Some((d.to_string(), d.cls(), d.to_int("i64"), d.to_int("u8"), d.to_f("f64"), d.to_f("f32")))
    }
    let ok = catch_unwind(AssertUnwindSafe(|| {
        let a = view::<Bitstring32>(&le);
        let b = view::<Bitstring>(&le);
        #[cfg(feature = "big")]
        let c = view::<BigBitstring>(&le);
        #[cfg(not(feature = "big"))]
        let c = b.clone();
        a.is_some() && a == b && b == c
    }))
    .unwrap_or(false);
    if !ok {
        for ty in ["b32", "dyn", "big"] {
            out.push(format!("sweep-anomaly/format/{}\tformat {} {}", ty, ty, hex(&le)));
            out.push(format!("sweep-anomaly/classify/{}\tclassify {} {}", ty, ty, hex(&le)));
            for i in ["i64", "u8"] {
                out.push(format!("sweep-anomaly/to_int/{}\tto_int {} {} {}", ty, ty, hex(&le), i));
            }
            for f in ["f64", "f32"] {
                out.push(format!("sweep-anomaly/to_float/{}\tto_float {} {} {}", ty, ty, hex(&le), f));
            }
        }
    }
}

pub fn run(p: &Plan) {
    // strides are primes, so that every residue class of every power of two is visited; the offset comes from the seed
    let mut report = vec![];
    let mut emitted: Vec<String> = vec![];
    let mut go = |name: &str, stride: u64, f: &(dyn Fn(u32, &mut Vec<String>) + Sync)| {
        let offset = if stride == 1 { 0 } else { p.seed.wrapping_mul(0x9E3779B97F4A7C15) % stride };
        let t0 = std::time::Instant::now();
        let (n, v) = par_sweep(stride, offset, f);
        report.push(format!(
            "{{\"sweep\":\"{}\",\"domain\":\"2^32\",\"stride\":{},\"offset\":{},\"elements\":{},\"anomalies\":{},\"seconds\":{:.1}}}",
            name, stride, offset, n, v.len(), t0.elapsed().as_secs_f64()
        ));
        emitted.extend(v);
    };
    let t = p.thorough;
    match p.prop.as_str() {
        "C12" => {
            go("from_f32->to_f32 identical bits, Bitstring32", if t { 1 } else { 61 }, &c12_one::<Bitstring32>);
            go("from_f32->to_f32 identical bits, Bitstring64", if t { 1 } else { 17 }, &c12_one::<Bitstring64>);
            go("from_f32->to_f32 identical bits, Bitstring128", if t { 3 } else { 509 }, &c12_one::<Bitstring128>);
            go("from_f32->to_f32 identical bits, Bitstring", if t { 1 } else { 127 }, &c12_one::<Bitstring>);
            #[cfg(feature = "big")]
            go("from_f32->to_f32 identical bits, BigBitstring", if t { 7 } else { 1021 }, &c12_one::<BigBitstring>);
        }
        "C10" => {
            go("from_i32/u32->Display,to_i32/u32, Bitstring32", if t { 1 } else { 101 }, &c10_one::<Bitstring32>);
            go("from_i32/u32->Display,to_i32/u32, Bitstring64", if t { 1 } else { 211 }, &c10_one::<Bitstring64>);
            go("from_i32/u32->Display,to_i32/u32, Bitstring128", if t { 5 } else { 503 }, &c10_one::<Bitstring128>);
            go("from_i32/u32->Display,to_i32/u32, Bitstring", if t { 3 } else { 211 }, &c10_one::<Bitstring>);
            #[cfg(feature = "big")]
            go("from_i32/u32->Display,to_i32/u32, BigBitstring", if t { 11 } else { 1009 }, &c10_one::<BigBitstring>);
        }
        "C03" => {
            go("Bitstring32 -> Display -> try_parse_str: accepted, class kept, fixed point; same via Bitstring", if t { 1 } else { 211 }, &c03_one);
        }
        "C15" => {
            go("same 4 bytes in Bitstring32/Bitstring/BigBitstring: Display, classes, to_i64, to_u8, to_f64, to_f32 agree", if t { 3 } else { 251 }, &c15_one);
        }
        "C13" => {
            go("Bitstring32 to_f32/to_f64 = str::parse(Display)", if t { 1 } else { 211 }, &c13_one);
        }
        _ => {}
    }
    for l in &emitted {
        println!("{}", l);
    }
    eprintln!("[{}]", report.join(","));
}
